#!/venv/bin/python
"""Regenerates MANIFEST.json from the table below (one row per property that has a check under props/)."""
import json
import os

HERE = os.path.dirname(os.path.dirname(os.path.abspath(__file__)))

# id -> (category, technique, text, note, design_ref)
CHECKS = {
    "C17": ("exploration", "post-condition monitors on the real encoding functions over seeded class-directed inputs",
            "Round-trip / count / length post-conditions are evaluated on the real functions for tens of thousands of "
            "seeded inputs covering identifier sizes 1..40, capacities 1..70, list lengths 0..300, custom block sizes, "
            "split vectors with zero-length pieces at head/middle/tail, widths 0..64 and the four output formats. "
            "Held-on-what-was-observed, not a proof; the input space is infinite so sampling is the right level.",
            "Trusts the oracle code in props/c17.py and Python's int/bytes semantics.", "DESIGN.md §3 C17"),
    "C18": ("exploration", "differential monitor: real Bitset vs list-of-bits reference model, exhaustive for small widths",
            "Every public Bitset operation and both halving helpers are compared with an independent MSB-first "
            "list-of-bits model: exhaustively for all values and all ordered pairs of lengths <= 6 (quick) / <= 8 "
            "(thorough), plus random and boundary values up to 300 bits and the 2^k-1/2^k/2^k+1 sweep of the "
            "no-length constructor for k = 1..300 (which reaches the float-logarithm region).",
            "Trusts the reference model in props/c18.py; negative indices and item assignment are outside the property.",
            "DESIGN.md §3 C18"),
}

NOT_YET = {}

ALL = [f"C{i:02d}" for i in range(1, 21)]


def main():
    checks = []
    for pid in ALL:
        if pid not in CHECKS:
            continue
        cat, tech, text, note, ref = CHECKS[pid]
        checks.append({
            "property_id": pid,
            "quick_cmd": f"./check {pid} quick",
            "thorough_cmd": f"./check {pid} thorough",
            "evidence_file": f"/verif/evidence/{pid}.json",
            "replay_cmd_template": f"./check {pid} --replay {{path}}",
            "engine": "vlib",
            "level_claimed": {"category": cat, "text": text, "design_ref": ref},
            "level_note": note,
            "technique": tech,
        })
    na = [{"property_id": pid, "reason": NOT_YET.get(pid, "runtime monitor for this property is not built yet "
                                                           "(work in progress; see DESIGN.md §3 for its design)")}
          for pid in ALL if pid not in CHECKS]
    manifest = {
        "version": 1,
        "setup_cmd": "true",
        "hooks": {
            "guard": "SSEPY_VERIF",
            "enable": "no source hooks: all monitors are installed from the harness side (class-attribute wrapping, "
                      "module proxies, fs interposition, sys.monitoring); checks import /repo's working tree directly "
                      "with SSEPY_VERIF=1 set for uniformity",
            "baseline_off_cmd": "cd /repo && /venv/bin/python -m pytest -ra -q -p no:cacheprovider --timeout=900 "
                                "--continue-on-collection-errors",
            "source_commits": [],
            "add_only": True,
        },
        "engines": [{"name": "vlib", "path": "/verif/vlib", "serves_properties": sorted(CHECKS),
                     "kind_free_text": "runtime monitoring: sharded subprocess workloads driving the real code with "
                                       "online oracles (reference models, post-conditions, history checkers, "
                                       "fault injection at fs operations); three-valued verdicts"}],
        "checks": checks,
        "not_applicable": na,
        "notes": "Exit codes: 0 held on everything explored, 1 VIOLATION (witness in replay/<id>/), 2 INCONCLUSIVE "
                 "(monitor observed too little / watchdog / dead worker). Genuine defects found were repaired by "
                 "'fix:' commits in /repo and are recorded in known_findings.json (fixed entries suppress nothing).",
    }
    with open(os.path.join(HERE, "MANIFEST.json"), "w") as f:
        json.dump(manifest, f, indent=1)
    print("MANIFEST.json:", len(checks), "checks,", len(na), "not_applicable")


if __name__ == "__main__":
    main()
