#!/venv/bin/python
"""Regenerates MANIFEST.json from the table below (one row per property that has a check under props/)."""
import json
import os

HERE = os.path.dirname(os.path.dirname(os.path.abspath(__file__)))

# id -> (category, technique, text, note, design_ref)
CHECKS = {
    "C01": ("exploration", "shadow-copy oracle: real KeyGen/EDBSetup/TokenGen/Search vs the plaintext database over a configuration grid x 9 database classes",
            "Tens of thousands of (scheme, configuration, database) cases per run: every parameter of every scheme is "
            "moved off its default, and databases are generated FOR the configuration in nine classes that include the "
            "boundaries named by the property (1x1, single list of 2^j, N = 2^t +- 1, block/level edges that reach "
            "Pi2Lev's medium and large cases, shared identifiers, zero-rich identifiers). Every stored keyword's "
            "result is compared with a deep copy of the plaintext taken before setup; any exception on a valid input "
            "is a refutation. Half of the cases re-use the scheme object (and mostly the key) of an earlier case with the same configuration, share keywords with it and search the earlier index again afterwards; default-size workloads add Pi2Lev large case at B=b=64, SSE-1 with 2^16 cells and posting lists longer than 2^16. Inconclusive unless every scheme, class, boundary tag and _Search function was observed.",
            "Sampling of an infinite input space; valid-database definition as in the property; oracle in props/_search_engine.py.",
            "DESIGN.md §3 C01"),
    "C02": ("exploration", "same engine as C01 judged on absent keywords (random and adversarially close families)",
            "For every generated (scheme, configuration, database) twelve absent keywords are searched: random ones "
            "and close ones (prefix, suffix, +NUL, flipped last byte, doubled, upper-cased, a stored identifier used as "
            "keyword, keywords stored in an earlier database under the same key). A non-empty result or any exception is a refutation; so is an earlier index that answers differently after a later setup on the same object.",
            "Absent keywords are drawn from the stored keywords' domain; oracle is the constant 'empty'.",
            "DESIGN.md §3 C02"),
    "C03": ("exploration", "wire-boundary oracle: serialize/deserialize equality + byte-only server pipeline + key reload in a fresh scheme instance",
            "For every generated case the key, index, tokens and results are serialized, deserialized under a "
            "configuration object rebuilt from the JSON round-trip of the configuration, compared (==, and bytes of a "
            "second serialize()), and the search is executed by a server-side scheme instance that only sees bytes, "
            "with tokens from the original client and from a second client that reloaded the key from its bytes; "
            "results are compared with the plaintext. The grid stresses widths that differ from the defaults the "
            "fixed-offset parsers were written against (k != k', l != l' != k, lambda != k, 1- and 2-byte addresses).",
            "One process plays client and server (no shared objects, only bytes + JSON); classes located by name.",
            "DESIGN.md §3 C03"),
    "C04": ("exploration", "substring scan of serialized index and tokens + pairwise distinctness / cross-setup disjointness of single-ciphertext units",
            "Databases with 8..16-byte random keywords and 8/16-byte random identifiers (classes that repeat one "
            "identifier under every keyword and many singletons) are indexed twice under one key; EDB.serialize() and "
            "every Token.serialize() are scanned for every stored keyword and (except SSE-2) identifier; all "
            "ciphertext-bearing entries, split into single-ciphertext units where schemes concatenate them, must be "
            "pairwise distinct inside one index and disjoint between the two indexes.",
            "Syntactic oracle only; chance-substring probability < 1e-11 per case; DP17 hash-table values and SSE-2 are exempt from the equality checks.",
            "DESIGN.md §3 C04"),
    "C05": ("exploration", "group invariant: shape(EDB) equal within families of databases built to collide on the public size parameter + uniform entry lengths",
            "Per configuration a family of valid databases is generated to collide on pi_S with maximally different "
            "length profiles (1xN, Nx1, partitions, every N in (2^(t-1), 2^t], equal block counts with different fill); "
            "a canonical shape (container kinds, entry counts, multisets of key/value byte lengths) is computed by a "
            "generic walk of the unpickled EDB.serialize() and must be identical inside each pi_S group; every table "
            "and flat array must use one key length and one value length.",
            "pi_S computed by the harness model from the plaintext; shape abstraction as defined in props/c05.py.",
            "DESIGN.md §3 C05"),
    "C06": ("exploration", "sortedness predicate on serialized tables + real-label sequences under permuted input (recording dict wrappers) + slot maps of two setups (recording list wrappers) + DP17 in-bucket order statistic",
            "Sorted part: each case is set up under one key in the original and three permuted keyword orders; every "
            "table read back from EDB.serialize() must have ascending keys and the sequences of real labels (those a "
            "recording dict sees while all stored keywords are searched) must coincide. Placement part: databases with "
            ">= 12 array-resident blocks are set up twice on ONE scheme object (same key for PiPtr/Pi2Lev, fresh key "
            "for SSE-1/DP17); per-keyword slot maps recorded by list wrappers (DP17: level, bucket and in-bucket "
            "offsets by trial decryption) must differ; a whole-run statistic rejects in-bucket positions that follow "
            "the processing order.",
            "False-alarm probability < 1e-8 per comparison by workload construction; recording wrappers are harness-side subclasses of dict/list.",
            "DESIGN.md §3 C06"),
    "C07": ("exploration", "before/after snapshot monitors + history checker against single-search baselines on a private deserialized index",
            "Deep copies of database, configuration dict (including the module-level DEFAULT_CONFIG passed by "
            "reference) and key bytes are compared after construction and EDBSetup; EDB bytes before/after a seeded "
            "history of 12..62 searches (present + absent, repeated) and token bytes around every search; every result "
            "in the history must equal the answer of a single search on a private deserialized copy.",
            "pickle output of an unchanged index is byte-stable (checked each case); sampling of histories.",
            "DESIGN.md §3 C07"),
    "C08": ("exploration", "outcome classifier over a configuration grid (refused@phase / correct / WRONG) with escalation to many forced tries when searches raise",
            "Every single-field substitution (length fields over {8,16,20,24,32,48,0,-1,2.5,'16',None}; block, capacity, "
            "locality and ratio fields over small/boundary/invalid values), every single-field deletion, every "
            "primitive name (valid, alias, empty, unknown, wrong kind), all pairs of length fields and random 2..4-field "
            "combinations are run through SSEConfig..Search on a database generated to be valid for that "
            "configuration. A completed search with a result != DB.get(w, empty) is the refutation; when an accepted "
            "index makes searches raise, up to 30 rounds of 40 one-posting keywords force the 1-in-256 silent case.",
            "The disjunction is evaluated per search; any exception type is a loud refusal; 20 s alarm per case (timeout = inconclusive).",
            "DESIGN.md §3 C08"),
    "C09": ("exploration", "client-boundary oracle over the real client Service + real server handler on a loopback websocket; enumerated client re-creation / server restart placements",
            "For each of the nine schemes the documented six-step workflow is run with the real client service against "
            "the real connection handler; all 32 subsets of 'discard the client object and re-create it from disk "
            "before step k' are combined with a server restart (none / before the first / before the third search); "
            "the bytes handed to the search callback are deserialized and compared with the JSON database (UTF-8 "
            "keywords, hex identifiers incl. leading-zero bytes). The frontend.client.commands layer is driven with "
            "stdout captured in the hex/int/raw/utf8 formats, one workflow returns a > 1 MiB result and one a 300-element set, a reply the server sent that never reaches the callback is a violation, and the thorough "
            "tier repeats the workflow with real server/client processes and SIGKILL.",
            "Quick tier shares one event loop between client and server (they interact only through the websocket and files); 10 s harness watchdog, expiry = inconclusive.",
            "DESIGN.md §3 C09"),
    "C10": ("exploration", "trace conformance against a 3-state reference model over exhaustively enumerated message sequences (raw websocket client vs the real handler), with the cleanup delay as a schedulable gate",
            "All sequences over 8 message kinds (config c1/c2, upload e1/e2, search, reconnect, foreign sid, unknown type) "
            "up to length 4 (quick) / 5 (thorough; plus every length-6 sequence that starts with an accepted configuration), each on a fresh sid, plus seeded random sequences to length 12, are "
            "sent by a raw websocket client to the real connection handler served in-process. The observable trace "
            "(init-echo state of every connection, ok/refused, search result identifying the index) must equal the "
            "model's; each sequence is run with reconnects after the predecessor's cleanup and again with reconnects "
            "INSIDE the cleanup delay (held by a gate); at the end the stored files must be the accepted ones.",
            "Cleanup delay virtualised by a module-local asyncio proxy (real-time sample in thorough); refusal = {'ok': False} reply or server-side closure.",
            "DESIGN.md §3 C10"),
    "C11": ("exploration", "history + executable 5-flag model over exhaustively enumerated client operation sequences (each op on a Service freshly loaded from disk, live in-process server), directory snapshots and key-file monitor",
            "All sequences over nine client operations (create valid / invalid / again from the stored configuration, "
            "generate key, encrypt, upload configuration, upload index, search present / absent) up to length 4 (quick) / "
            "5 (thorough), the complete workflow with every operation inserted at every position and every tail for all "
            "nine schemes, and random sequences of length 6..12 are executed; accept/refuse, the flags persisted in "
            "service_meta, SHA-256 snapshots of the service directory around refused operations, the key file's bytes "
            "and end-of-workflow search results are compared with the model at every step; the frontend.client.commands layer (aliases, printed outcomes) is driven with the same model.",
            "Prerequisite relation taken from the handlers / frontend/README.md; upload flags are re-derived from the server on connect.",
            "DESIGN.md §3 C11"),
    "C12": ("exploration", "harness-as-scheduler over raw websocket connections with the cleanup delay as a gated event; offline predicates M1-M4 over the step-stamped history",
            "Two connections with scripts of <= 2 requests: every interleaving of their open/request/close events for every "
            "script pair, under four policies for releasing the server's delays (immediately, one event later, in virtual-time order one step late, only "
            "at the end); three connections: every interleaving of two script triples plus seeded random walks (thorough: every interleaving for <= 1 request each). "
            "Reader tasks stamp each received message with the logical step; afterwards the history is checked: no reply "
            "to connection j while an earlier-opened connection is still open, a probe connection is accepted and told a "
            "state >= every acknowledged transition, its search is answered from the one acknowledged index.",
            "Whole-message granularity; settle uses a short real sleep (can hide, never invent an overlap); in-process server with a module-local asyncio proxy.",
            "DESIGN.md §3 C12"),
    "C13": ("fault_enumeration", "crash injection at every numbered file-system mutation (fs interposition in a real subprocess, os._exit before/after the event), then recovery + full workflow with the real code on the same directory",
            "For each scheme (quick: PiBas + CT14; thorough: all nine), component (server handling config / upload incl. the "
            "state rewrite at connection cleanup; client create-service, generate-key, encrypt, upload-config+ack+close, "
            "upload-index+ack+close) a count run numbers every mkdir / open-for-write / write / unlink / replace under "
            "~/.sse; then one subprocess run per (event k, before|after) is cut exactly there. The peer and the recovery "
            "(reconnect, redo what the reported state asks for, finish the workflow, search every keyword) use the real "
            "client and server code on the crashed directory. Every event of every enumerated step is covered.",
            "Crash = process death at a Python-level file operation with writes flushed at once; no torn writes / lost page cache (the code has no fsync); recovery policy stated in DESIGN.md.",
            "DESIGN.md §3 C13"),
    "C14": ("exploration", "post-condition monitors + independent recomputation of every ciphertext (PKCS7 + AES-CBC with the observed IV)",
            "The real AES-CBC wrapper (obtained by name, as the schemes do) is driven with all message lengths 0..80 "
            "for each key length and several keys, random lengths to 4096 biased to block boundaries, related keys, "
            "and every declared length off by +-1; each call is checked for round-trip, exact expansion, "
            "randomisation, process-wide IV uniqueness, wrong-key behaviour and equality with an independent "
            "computation. The same post-conditions run in-situ under every scheme workload.",
            "Trusts the `cryptography` AES-CBC primitive as reference and the oracle in props/c14.py.", "DESIGN.md §3 C14"),
    "C15": ("exploration", "exhaustive bijection monitor per key (n=2..12, all 2-byte LR messages) + inverse/injectivity oracles on random wide inputs + in-situ PRP hook during SSE-1/SSE-2 setup",
            "For sampled keys the image of ALL 2^n inputs is collected for n = 2..12 and must be {0,1}^n with "
            "decrypt inverting encrypt; widths to 2100 bits (around multiples of the 160-bit digest, odd and even) are "
            "sampled; Luby-Rackoff is run on all 65 536 two-byte messages and on structured sample sets for 4..64 "
            "bytes; wrong key/message lengths must raise; and the PRP instances inside SSE-1/SSE-2 are hooked during "
            "real setups so that the addresses they produce are observed to be collision-free and in range; one cipher object and one key are also used at many widths in descending / ascending / shuffled order.",
            "Keys are sampled (exhaustive per key, not over keys); trusts the set-based oracle in props/c15.py.",
            "DESIGN.md §3 C15"),
    "C16": ("exploration", "differential monitor against reference RFC 5246 P_hash / counter-mode expansion written in the harness",
            "Outputs of the real HmacPRF and hash wrapper (looked up by name) are compared byte for byte with "
            "reference implementations over seeded (digest, key 0..80, message 0..200, length 1..200) draws and a "
            "complete output-length sweep 1..200 per digest; determinism, exact length, pairwise distinctness on "
            "near-duplicate inputs and declared-length refusals are checked on the same calls.",
            "Trusts hashlib/hmac as the reference primitives and the reference constructions in props/c16.py.",
            "DESIGN.md §3 C16"),
    "C17": ("exploration", "post-condition monitors on the real encoding functions over seeded class-directed inputs",
            "Round-trip / count / length post-conditions are evaluated on the real functions for tens of thousands of "
            "seeded inputs covering identifier sizes 1..40, capacities 1..70, list lengths 0..300, custom block sizes, "
            "split vectors with zero-length pieces at head/middle/tail, widths 0..64 and the four output formats. "
            "Held-on-what-was-observed, not a proof; the input space is infinite so sampling is the right level.",
            "Trusts the oracle code in props/c17.py and Python's int/bytes semantics.", "DESIGN.md §3 C17"),
    "C18": ("exploration", "differential monitor: real Bitset vs list-of-bits reference model, exhaustive for small widths",
            "Every public Bitset operation and both halving helpers are compared with an independent MSB-first "
            "list-of-bits model: exhaustively for all values and all ordered pairs of lengths <= 6 (quick) / <= 8 "
            "(thorough), plus random and boundary values up to 300 bits and the 2^k-1/2^k/2^k+1 sweep of the "
            "no-length constructor for k = 1..300 (which reaches the float-logarithm region).",
            "Trusts the reference model in props/c18.py; negative indices and item assignment are outside the property.",
            "DESIGN.md §3 C18"),
    "C19": ("exploration", "history + executable model: seeded operation sequences on the real SPFLBArray vs a reference list, directory-listing and open-audit monitors",
            "Thousands of seeded sequences (array_len 1..40, item_size 1..9, items_per_file 1..len+2, 5..40 ops incl. "
            "+- indices, arbitrary slices, deletions, clear, iteration, membership, close+open, post-close ops, "
            "oversized / non-bytes items, failing value iterators in the middle of a slice assignment) are applied to "
            "the real array and to a list model; every observation is compared, a full read after every failing "
            "operation, the directory is listed after every operation and write-opens outside it are audited.",
            "Trusts the list model and generator in props/c19.py; crash consistency is not part of this property.",
            "DESIGN.md §3 C19"),
    "C20": ("exploration", "history + executable model: seeded operation sequences on the real PickledDict / DBMDict vs a reference dict",
            "Seeded sequences over a 6-key universe are applied to the real classes and to a dict model with full "
            "comparisons after every refusal, clear, sync and close+open; from_dict aliasing, post-close operations "
            "and path refusals are checked for PickledDict; DBMDict is checked within one open session (the part that "
            "works on dbm.dumb).",
            "Trusts the dict model in props/c20.py; DBMDict reopen is outside the property on this image.",
            "DESIGN.md §3 C20"),
}

NOT_YET = {}

ALL = [f"C{i:02d}" for i in range(1, 21)]


# workloads added after the third round of seeded defects ("hostile but legitimate callers", DESIGN.md §2)
ROUND3 = {
    "C01": " Also: a setup rejected half-way on the same object and key before the real one, the key of another configuration, the caller rewriting its cfg dict and database after setup, array-edge databases (255/256/257 blocks) and databases whose keywords share one list object.",
    "C02": " Absent families include every keyword the key or the object has seen before (earlier database, other configuration, a database whose setup was rejected half-way).",
    "C03": " A wide-parameters shard runs the pipeline at keyword limits of 300-2000 bytes, long labels and 64-200-byte identifiers; SSE-2's param_n ranges from exact to just past the next PRP width.",
    "C04": " Disjointness is also required when the host re-seeds the global random generator with one value before each build, and between builds made in two workers forked after a first build.",
    "C05": " Four shards build pairs of 20000-33000-posting databases with 16-byte identifiers (level entries over 1 MiB).",
    "C06": " Every eighth placement pair is built in two workers forked after the parent's own setup; CT14/ANSS16 tables stay ascending with 3-byte labels whose random fillers coincide.",
    "C07": " Every sixth case is a 40-100-keyword database searched forwards, backwards, shuffled and at random (histories over more than 30 distinct tokens on one object and index).",
    "C08": " In half of the accepted cases the caller's configuration dict is rewritten or emptied right after setup.",
    "C09": " JSON keywords include valid Unicode that is not normalised; the expected database is computed by the harness; two client services in one process make every network step at the same moment.",
    "C10": " Bursts of 2-4 requests written without reading replies (after 0-2 acknowledged steps) must not be acknowledged beyond the first refusal and must leave state, files and search as the model says.",
    "C11": " The commands layer also issues create-service with an unreadable configuration file (refused; whole client tree and alias table unchanged) and one workflow searches a 1.28 MB answer.",
    "C12": " A connection on another service id closes at every point of five script tuples' interleavings with its cleanup (which holds the global registry lock) released one step late or at the end.",
    "C13": " Every crashed directory is recovered twice (at once; after a connection that only looks at the service), and the create-service command with its alias table is a crash step of its own.",
    "C14": " Hostile callers: reused caller-owned bytearrays, a host that re-seeds random, workers forked after the first encryption, valid calls after refused ones.",
    "C15": " Hostile callers: one cipher / PRP object with a key buffer overwritten in place, alternating keys, refused-then-valid calls, compared with fresh objects.",
    "C16": " Key and message are also passed as caller-owned bytearrays, twice.",
    "C17": " Parse / partition / split are repeated after the caller changed the lists they returned; bytearray inputs; block sizes beyond 64 KiB; non-NFC keywords.",
    "C18": " Byte spellings with redundant leading zero bytes or fewer bytes than ceil(n/8).",
    "C19": " Membership probes also as bytearray / memoryview.",
    "C20": " from_dict sources also defaultdict, OrderedDict and a dict with __missing__.",
}


ROUND4 = {
    "C01": " 1100-1200 distinct keywords per scheme searched two or three times on one object; document-number identifiers; PiBas identifiers of mixed lengths.",
    "C02": " A PRF hook reads the dummy keywords CT14/ANSS16 pad with during the real EDBSetup: they must be fresh in every setup.",
    "C04": " The second build also runs in another thread or after 11 s to a day of idle time (process clocks pushed forward).",
    "C06": " Every second shard of every check runs under python -O (assert statements stripped).",
    "C07": " Marathons of 66000 searches on one index; rolling re-indexes of a changing collection by one object with dropped indexes.",
    "C10": " The service's scheme varies per shard; unknown message types include plausible names with damaging payloads.",
    "C12": " Idle time: the event loop's clock is pushed forward (12 s once, or two shorter pauses, at every event boundary); four-connection walks; schedules that exposed the admission-order defect are kept.",
    "C14": " One cipher object shared by four threads with forced switch points; encryptions in other threads and after idle time; whole-mebibyte messages.",
    "C15": " Cipher / PRP objects shared by four threads with forced switch points; the caller overwrites returned bit strings.",
    "C16": " PRF and hash objects shared by four threads with forced switch points; key/message boundary-shift pairs.",
    "C17": " Lazy partitions consumed alternately; identifiers that start with BOM / zero-width / NUL characters in the utf8 format.",
    "C18": " Overlapping iterations over one object, operands used twice, augmented assignment with aliases.",
    "C19": " Live iterators interleaved with writes; with-blocks that end in an exception.",
    "C20": " Values that are themselves serialised objects; sibling dictionaries with temp-like names closed in turn.",
}


ROUND5 = {
    "C01": " Forced values (instrument.Steer): a few PRF outputs / os.urandom draws / caller keywords and identifiers begin or end with pickle, JSON, white-space and padding patterns. Keywords taken from the scheme's own PRF inputs during an earlier setup become real keywords. Every capacity above its default with a database the default could not hold (SSE-1 with 2^17 cells and a list of more than 65536 postings). The caller scribbles on every result it is handed.",
    "C02": " The same forced values and scribbled results; byte strings the scheme evaluates again in a second setup (computable names) are searched as absent keywords.",
    "C03": " A steered-values shard counts forced values that reach the wire; array-edge databases (255/256/257 blocks).",
    "C04": " The second build is also made by a fresh scheme object with the key reloaded from bytes, in twin interpreters (two fresh processes that agree on the wall-clock second, pid, hash seed) and with blocks of several KiB.",
    "C05": " One database dict indexed by three threads at the same moment (own scheme objects and keys, forced switch points): shapes as when built alone.",
    "C06": " Sortedness is also judged on the index deserialize() restores and on the byte offsets of the labels in the serialized index; PiBas identifiers of mixed lengths; placement compared across twin interpreters.",
    "C07": " The single-search baseline comes from a fresh scheme object, a private deserialized index and a token rebuilt from bytes.",
    "C09": " The server is started through the repository's own run_server; configuration uploads of exactly k*65536+d bytes under a wire conservation monitor (sent = received, byte for byte); two sibling services of one scheme on one server; a server restart between the two uploads.",
    "C10": " Searches ask three different questions with the token_digest field constant, real or omitted; a restart of the server process is a symbol (every 4-sequence that contains one).",
    "C11": " Invalid configurations include twins that compare equal to a valid one but are typed differently (32.0, True).",
    "C13": " Every crash point is run twice: with writes that reach the file at once and with writes left in the interpreter's buffer until the code flushes or closes (a kill loses them).",
    "C14": " Declared-length objects are all built first and stay alive while each is used; one-sided declarations; a fresh cipher object per encryption up to 70 KB; twin interpreters.",
    "C15": " Key widths that are not whole bytes (1 to 257 bits) with the top bit set.",
    "C19": " Quick tier: 56000 sequences.",
    "C20": " A refused create()/from_dict() over an existing path leaves the stored dictionary byte for byte; quick tier: 35000 sequences.",
}


ROUND6 = {
    "C01": " Token objects are reused on a second index under the same key; three threads search one scheme object and index; keywords of 254 to 65537 bytes with siblings sharing long prefixes.",
    "C02": " The same long keywords with absent siblings (same first 254/255/256/300/1000 bytes, truncations, extensions); searches from three threads (token + search, search-only).",
    "C03": " The real server (started through run_server) holds 27 services of all schemes at once and sees only bytes; every service is searched three times in different orders.",
    "C04": " The index is scanned again after it has been searched; posting lists are also handed over as tuple, list subclass, one-shot iterator, generator, map object, keys view.",
    "C06": " Every third sorted-table case runs with clustered labels (forty pseudo-random values share their leading four bytes).",
    "C09": " Workflows in which the server's cleanup delays are held back and end only when the client waits or after later steps. A wait without result or closure is decided logically (never served) when the server still has a closed connection registered.",
    "C10": " Symbol cx: a configuration that cannot be stored as JSON, in every short sequence; configurations carry non-ASCII text; every fifth shard runs with an ASCII default text encoding.",
    "C14": " Every shard runs under the plain interpreter and under python -O.",
    "C15": " Every shard in both interpreter modes; one PRP / cipher object is asked for 2^16+500 distinct inputs, then the first ones again.",
    "C16": " Every shard in both interpreter modes; declared-length PRFs and hash objects are all alive while each is used.",
    "C17": " Every shard in both interpreter modes.",
    "C19": " Arrays addressed by relative paths; a path reused for an array of another geometry after release; arrays read by another interpreter process with another hash seed.",
    "C20": " Dictionaries opened by another interpreter process with another hash seed; with blocks left by an exception, then reopen.",
}


ROUND7 = {
    "C01": " One scheme object builds index after index of a changing collection, each dropped before the next (object lifetime, id() reuse), with one key and with a new key object per generation. TokenGen / Search interrupted by a failpoint and repeated.",
    "C02": " The same dropped-index generations judged on absent keywords.",
    "C03": " Dropped-index generations through tokens; 900 small services, one upload and one search each, on the real server.",
    "C04": " The second build is also made by a copy (deepcopy / pickle round trip) of the scheme object that made the first.",
    "C05": " A PiPtr family with more than 256 array cells (two-byte pointers).",
    "C07": " The caller extends every answer it is handed; dropped-index generations.",
    "C08": " An accepted default configuration on one long-lived scheme object through dropped-index generations; TokenGen / Search interrupted by a failpoint (KeyboardInterrupt at a statement inside the library) and repeated.",
    "C11": " A last encrypt probe with a database that holds no posting: refused without effect or accepted with its flag.",
    "C12": " A full garbage collection while connections are open and staged collections before the probe in a sixth of the schedules.",
    "C13": " After a crash in any step but create-service a client that no longer knows its service has NOT recovered.",
    "C14": " The cipher object is copied by the caller (copy, deepcopy, pickle) after use; original and copies must not repeat ciphertexts.",
    "C15": " Inputs that are instances of a caller-side subclass of Bitset.",
    "C18": " The bit string handed to the halving helpers stays as it was; bool indices.",
    "C19": " Indices spelled as bool or as objects with __index__.",
}


def main():
    checks = []
    for pid in ALL:
        if pid not in CHECKS:
            continue
        cat, tech, text, note, ref = CHECKS[pid]
        text = text + ROUND3.get(pid, "") + ROUND4.get(pid, "") + ROUND5.get(pid, "") + ROUND6.get(pid, "") + ROUND7.get(pid, "")
        checks.append({
            "property_id": pid,
            "quick_cmd": f"./check {pid} quick",
            "thorough_cmd": f"./check {pid} thorough",
            "evidence_file": f"/verif/evidence/{pid}.json",
            "replay_cmd_template": f"./check {pid} --replay {{path}}",
            "engine": "vlib",
            "level_claimed": {"category": cat, "text": text, "design_ref": ref},
            "level_note": note,
            "technique": tech,
        })
    na = [{"property_id": pid, "reason": NOT_YET.get(pid, "runtime monitor for this property is not built yet "
                                                           "(work in progress; see DESIGN.md §3 for its design)")}
          for pid in ALL if pid not in CHECKS]
    manifest = {
        "version": 1,
        "setup_cmd": "true",
        "hooks": {
            "guard": "SSEPY_VERIF",
            "enable": "no source hooks: all monitors are installed from the harness side (class-attribute wrapping, "
                      "module proxies, fs interposition, sys.monitoring); checks import /repo's working tree directly "
                      "with SSEPY_VERIF=1 set for uniformity",
            "baseline_off_cmd": "cd /repo && /venv/bin/python -m pytest -ra -q -p no:cacheprovider --timeout=900 "
                                "--continue-on-collection-errors",
            "source_commits": [],
            "add_only": True,
        },
        "engines": [{"name": "vlib", "path": "/verif/vlib", "serves_properties": sorted(CHECKS),
                     "kind_free_text": "runtime monitoring: sharded subprocess workloads driving the real code with "
                                       "online oracles (reference models, post-conditions, history checkers, "
                                       "fault injection at fs operations); three-valued verdicts"}],
        "checks": checks,
        "not_applicable": na,
        "notes": "Exit codes: 0 held on everything explored, 1 VIOLATION (witness in replay/<id>/), 2 INCONCLUSIVE "
                 "(monitor observed too little / watchdog / dead worker). Genuine defects found were repaired by "
                 "'fix:' commits in /repo and are recorded in known_findings.json (fixed entries suppress nothing).",
    }
    with open(os.path.join(HERE, "MANIFEST.json"), "w") as f:
        json.dump(manifest, f, indent=1)
    print("MANIFEST.json:", len(checks), "checks,", len(na), "not_applicable")


if __name__ == "__main__":
    main()
