#!/bin/sh
# tools/mutant_run.sh <patch.diff> <PROP> [tier]  -- apply a patch to a scratch copy of /repo HEAD (+ working tree),
# run the property's check against it (VERIF_REPO), print the verdict, remove the copy.  Never touches /repo.
set -u
patch="$1"; prop="$2"; tier="${3:-quick}"
d=$(mktemp -d /tmp/vt_mut_XXXXXX)
rsync -a --exclude .git --exclude '__pycache__' --exclude 'test.dict.*' /repo/ "$d/"
if ! (cd "$d" && patch -p1 -s < "$patch"); then echo "PATCH-FAILED $patch"; rm -rf "$d"; exit 9; fi
ev=$(mktemp -d /tmp/vt_ev_XXXXXX)
VERIF_REPO="$d" VERIF_EVIDENCE_DIR="$ev" VERIF_REPLAY_DIR="$ev/replay" "$(dirname "$0")/../check" "$prop" "$tier" > "$ev/out.txt" 2>&1
rc=$?
echo "rc=$rc $(grep -c '^VIOLATION' "$ev/out.txt") violation-lines; $(grep -m2 '^VIOLATION\|^INCONCLUSIVE\|held on' "$ev/out.txt" | cut -c1-330)"
rm -rf "$d" "$ev"
exit $rc
