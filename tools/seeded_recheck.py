#!/venv/bin/python
"""tools/seeded_recheck.py [-j N] [ID_N ...]  -- re-run ./check <prop> quick against every stored seeded defect and
update the verdict in its meta.json (the stored verdict may predate later strengthening of the checks). Entries whose
disposition starts with "rejected" are skipped. An inconclusive run (exit 2) is repeated once on its own."""
import concurrent.futures
import json
import os
import subprocess
import sys
HERE = os.path.dirname(os.path.dirname(os.path.abspath(__file__)))
args = sys.argv[1:]
jobs = 1
if args[:1] == ["-j"]:
    jobs = int(args[1])
    args = args[2:]
names = args or sorted(os.listdir(os.path.join(HERE, "seeded")))


def one(name):
    d = os.path.join(HERE, "seeded", name)
    mp = os.path.join(d, "meta.json")
    if not os.path.exists(mp):
        return name, None, ""
    m = json.load(open(mp))
    if m.get("disposition", "").startswith("rejected"):
        return name, "skip", m["disposition"][:100]
    prop = name.split("_")[0]
    r = subprocess.run([os.path.join(HERE, "tools", "mutant_run.sh"), os.path.join(d, "patch.diff"), prop, "quick"],
                       capture_output=True, text=True)
    return name, r.returncode, r.stdout.strip()


again = []
with concurrent.futures.ThreadPoolExecutor(jobs) as ex:
    for name, rc, out in ex.map(one, names):
        if rc is None:
            continue
        if rc == "skip":
            print(f"{name}: {out}", flush=True)
            continue
        if rc != 1:
            again.append(name)
            continue
        mp = os.path.join(HERE, "seeded", name, "meta.json")
        m = json.load(open(mp))
        m["check_quick"] = {"rc": rc, "summary": out[:600]}
        json.dump(m, open(mp, "w"), indent=1)
        print(f"{name}: rc={rc} {out[:160]}", flush=True)
for name in again:
    name, rc, out = one(name)
    mp = os.path.join(HERE, "seeded", name, "meta.json")
    m = json.load(open(mp))
    m["check_quick"] = {"rc": rc, "summary": out[:600]}
    json.dump(m, open(mp, "w"), indent=1)
    print(f"{name}: rc={rc} (second run) {out[:160]}", flush=True)
