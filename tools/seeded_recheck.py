#!/venv/bin/python
"""tools/seeded_recheck.py [ID_N ...]  -- re-run ./check <prop> quick against every stored seeded defect and update the
verdict in its meta.json (the stored verdict may predate later strengthening of the checks)."""
import json, os, subprocess, sys
HERE = os.path.dirname(os.path.dirname(os.path.abspath(__file__)))
names = sys.argv[1:] or sorted(os.listdir(os.path.join(HERE, "seeded")))
for name in names:
    d = os.path.join(HERE, "seeded", name)
    mp = os.path.join(d, "meta.json")
    if not os.path.exists(mp):
        continue
    m = json.load(open(mp))
    if m.get("disposition", "").startswith("rejected"):
        print(f"{name}: {m['disposition'][:100]}")
        continue
    prop = name.split("_")[0]
    r = subprocess.run([os.path.join(HERE, "tools", "mutant_run.sh"), os.path.join(d, "patch.diff"), prop, "quick"],
                       capture_output=True, text=True)
    m["check_quick"] = {"rc": r.returncode, "summary": r.stdout.strip()[:600]}
    json.dump(m, open(mp, "w"), indent=1)
    print(f"{name}: rc={r.returncode} {r.stdout.strip()[:160]}")
