#!/opt/veriftools/pyvenv/bin/python
"""Validate evidence/*.json and MANIFEST.json against the schemas (uses the tooling venv's jsonschema)."""
import glob, json, sys, os
import jsonschema
here = os.path.dirname(os.path.dirname(os.path.abspath(__file__)))
ev = json.load(open("/root/.vp/EVIDENCE.schema.json"))
ms = json.load(open("/root/.vp/MANIFEST.schema.json"))
bad = 0
files = sys.argv[1:] or sorted(glob.glob(os.path.join(here, "evidence", "*.json")))
for f in files:
    try:
        jsonschema.validate(json.load(open(f)), ev)
        print("ok ", f)
    except Exception as e:
        bad += 1
        print("BAD", f, str(e)[:300])
mp = os.path.join(here, "MANIFEST.json")
if os.path.exists(mp):
    try:
        jsonschema.validate(json.load(open(mp)), ms); print("ok ", mp)
    except Exception as e:
        bad += 1; print("BAD", mp, str(e)[:300])
sys.exit(1 if bad else 0)
