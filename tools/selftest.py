#!/venv/bin/python
"""tools/selftest.py [PROP ...] [--name NAME] [--tier quick] [-j N]

For every catalogue entry (mutants/catalog.py) of the selected properties: copy /repo's working tree to a scratch
directory, apply the single edit, run `./check PROP quick` with VERIF_REPO pointing at the copy, expect exit 1.
Prints one line per mutant: CAUGHT / MISSED / INCONCLUSIVE / BROKEN-MUTANT.  Scratch copies are removed at once.
"""
import concurrent.futures
import os
import shutil
import subprocess
import sys
import tempfile

HERE = os.path.dirname(os.path.dirname(os.path.abspath(__file__)))
sys.path.insert(0, HERE)
from mutants.catalog import M  # noqa


def run_one(ent, tier):
    d = tempfile.mkdtemp(prefix="vt_mut_", dir="/tmp")
    ev = tempfile.mkdtemp(prefix="vt_ev_", dir="/tmp")
    try:
        subprocess.run(["rsync", "-a", "--exclude", ".git", "--exclude", "__pycache__", "--exclude", "test.dict.*",
                        "/repo/", d + "/"], check=True)
        p = os.path.join(d, ent["file"])
        s = open(p, encoding="utf8").read()
        if s.count(ent["old"]) != 1:
            return ent, "BROKEN-MUTANT", f"old text occurs {s.count(ent['old'])} times"
        open(p, "w", encoding="utf8").write(s.replace(ent["old"], ent["new"]))
        for (f2, old2, new2) in ent.get("more", []):
            p2 = os.path.join(d, f2)
            s2 = open(p2, encoding="utf8").read()
            if s2.count(old2) != 1:
                return ent, "BROKEN-MUTANT", f"second site: old text occurs {s2.count(old2)} times"
            open(p2, "w", encoding="utf8").write(s2.replace(old2, new2))
        r = subprocess.run([sys.executable, "-c", f"import sys; sys.path.insert(0, {d!r}); import importlib; "
                                                  f"importlib.import_module({ent['file'][:-3].replace('/', '.')!r})"],
                           capture_output=True, text=True)
        if r.returncode != 0:
            return ent, "BROKEN-MUTANT", "does not import: " + r.stderr[-200:]
        env = dict(os.environ, VERIF_REPO=d, VERIF_EVIDENCE_DIR=ev, VERIF_REPLAY_DIR=os.path.join(ev, "replay"),
                   VERIF_WORKERS=os.environ.get("SELFTEST_WORKERS", "6"))
        r = subprocess.run([os.path.join(HERE, "check"), ent["prop"], tier], capture_output=True, text=True, env=env)
        first = next((l for l in r.stdout.splitlines() if l.startswith(("VIOLATION", "INCONCLUSIVE"))), "")
        status = {1: "CAUGHT", 0: "MISSED", 2: "INCONCLUSIVE"}.get(r.returncode, f"rc={r.returncode}")
        return ent, status, first[:260]
    finally:
        shutil.rmtree(d, ignore_errors=True)
        shutil.rmtree(ev, ignore_errors=True)


def main():
    args = sys.argv[1:]
    tier, jobs, names, props = "quick", 3, set(), set()
    i = 0
    while i < len(args):
        if args[i] == "--tier":
            tier = args[i + 1]; i += 2
        elif args[i] == "-j":
            jobs = int(args[i + 1]); i += 2
        elif args[i] == "--name":
            names.add(args[i + 1]); i += 2
        else:
            props.add(args[i].upper()); i += 1
    ents = [e for e in M if (not props or e["prop"] in props) and (not names or e["name"] in names)]
    missed = 0
    with concurrent.futures.ThreadPoolExecutor(jobs) as ex:
        for ent, status, info in ex.map(lambda e: run_one(e, tier), ents):
            print(f"{status:14s} {ent['prop']} {ent['name']:34s} {info}", flush=True)
            if status != "CAUGHT":
                missed += 1
    print(f"{len(ents) - missed}/{len(ents)} caught")
    return 1 if missed else 0


if __name__ == "__main__":
    sys.exit(main())
