#!/venv/bin/python
"""Print the markdown table of stored seeded defects (seeded/*/meta.json) for DESIGN.md section 5.1."""
import json, os, re
HERE = os.path.dirname(os.path.dirname(os.path.abspath(__file__)))
print("| seeded | what was changed | needs | `./check <id> quick` |")
print("|---|---|---|---|")
for name in sorted(os.listdir(os.path.join(HERE, "seeded"))):
    mp = os.path.join(HERE, "seeded", name, "meta.json")
    if not os.path.exists(mp):
        continue
    m = json.load(open(mp))
    summ = re.sub(r"\s+", " ", str(m.get("summary", "?")))[:170]
    needs = re.sub(r"\s+", " ", str(m.get("needs_to_manifest", "?")))[:150]
    cq = m.get("check_quick", {})
    if m.get("disposition"):
        verdict = m["disposition"][:120]
    elif cq.get("rc") == 1:
        sig = re.search(r"\[([^\]]+)\]", cq.get("summary", ""))
        verdict = "caught: `" + (sig.group(1)[:80] if sig else "violation") + "`"
    elif cq:
        verdict = f"NOT caught (rc={cq.get('rc')})"
    else:
        verdict = "(not run)"
    print(f"| {name} | {summ} | {needs} | {verdict} |")
