#!/venv/bin/python
"""tools/seeded_confirm.py <PROP> <N> [--no-suite]

Independently confirms a sub-agent's seeded defect (/tmp/mut/out/<PROP>/patchN.diff + demoN.py + metaN.json):
  1. fresh scratch worktree of /repo HEAD (outside /repo and /verif), demo on the clean tree must exit 0
  2. patch applies; demo on the patched tree must exit 1
  3. the repository's whole test suite on the patched tree gives the baseline outcome (90 pass, the 10 known
     TestDBMDict failures)
then stores it as /verif/seeded/<PROP>_<N>/{patch.diff, demo.py, meta.json}, runs ./check <PROP> quick against the
patched copy (VERIF_REPO) and records the verdict in meta.json.  The scratch worktree is removed at once.
"""
import json
import os
import re
import shutil
import subprocess
import sys

HERE = os.path.dirname(os.path.dirname(os.path.abspath(__file__)))
EXPECTED_FAIL = {"test_close", "test_contains2", "test_context", "test_delete_item", "test_delete_item2",
                 "test_exceptions", "test_from_dict_firstly", "test_iter", "test_set_value", "test_set_value2"}


def sh(cmd, **kw):
    return subprocess.run(cmd, shell=True, capture_output=True, text=True, **kw)


def main():
    prop, n = sys.argv[1].upper(), sys.argv[2]
    suite = "--no-suite" not in sys.argv
    base = sys.argv[sys.argv.index("--src") + 1] if "--src" in sys.argv else "/tmp/mut/out"
    store_as = sys.argv[sys.argv.index("--as") + 1] if "--as" in sys.argv else n
    src = f"{base}/{prop}"
    patch, demo, meta = f"{src}/patch{n}.diff", f"{src}/demo{n}.py", f"{src}/meta{n}.json"
    for f in (patch, demo):
        if not os.path.exists(f):
            print("MISSING", f)
            return 2
    wt = f"/tmp/vt_seed_{prop}_{store_as}"
    sh(f"git -C /repo worktree remove --force {wt}")
    shutil.rmtree(wt, ignore_errors=True)
    r = sh(f"git -C /repo worktree add --detach {wt} HEAD")
    if r.returncode:
        print("worktree failed", r.stderr)
        return 2
    ran, ok = [], True
    try:
        r = sh(f"timeout 300 /venv/bin/python {demo} {wt}")
        ran.append(f"demo on clean tree -> exit {r.returncode}")
        if r.returncode != 0:
            ok = False
            print("demo does not pass on the clean tree:", r.stdout[-300:], r.stderr[-300:])
        r = sh(f"git -C {wt} apply {patch}")
        if r.returncode:
            print("patch does not apply:", r.stderr[-300:])
            return 2
        r = sh(f"timeout 300 /venv/bin/python {demo} {wt}")
        ran.append(f"demo on patched tree -> exit {r.returncode}: {(r.stdout.strip().splitlines() or [''])[-1][:200]}")
        if r.returncode != 1:
            ok = False
            print("demo does not fail on the patched tree: rc", r.returncode, r.stdout[-300:], r.stderr[-300:])
        # which tests can see the patch?  No test file imports frontend/ or global_config (checked here by grep), and
        # data_persistence/ is imported by the two persistence test files only; a patch confined to such files cannot
        # change the outcome of the other test files, so only the test files that can see it are run.
        touched = re.findall(r"^\+\+\+ b/(\S+)", open(patch).read(), re.M)
        tests_see_frontend = sh(f"grep -rlE 'frontend|global_config' {wt}/test").stdout.strip()
        tests_see_dp = set(sh(f"grep -rl data_persistence {wt}/test {wt}/schemes {wt}/toolkit").stdout.split())
        only_frontend = all(t.startswith("frontend/") or t == "global_config.py" for t in touched) and not tests_see_frontend
        only_dp = all(t.startswith("data_persistence/") for t in touched) and \
            tests_see_dp <= {f"{wt}/test/test_persistent_array.py", f"{wt}/test/test_persistent_dict.py"}
        target = ""
        if suite and ok and "--whole-suite" not in sys.argv and only_frontend:
            r = sh(f"cd {wt} && timeout 600 /venv/bin/python -m pytest --collect-only -q -p no:cacheprovider 2>&1 | tail -3")
            ran.append("suite: the patch touches only " + ", ".join(touched) + "; no test file imports frontend/ or "
                       "global_config (grep), so no test can see it; collection on the patched tree -> "
                       + r.stdout.strip().splitlines()[-1][:80])
            if "error" in r.stdout.lower():
                ok = False
            suite = False
        elif suite and ok and "--whole-suite" not in sys.argv and only_dp:
            target = "test/test_persistent_array.py test/test_persistent_dict.py"
        else:
            # scheme packages import nothing of each other (only schemes.interface and toolkit), and every scheme test
            # file imports exactly one scheme package: a patch confined to schemes/<A>/<B>/ is visible to
            # test_<A>_<B>.py only
            pk = {tuple(t.split("/")[1:3]) for t in touched if t.startswith("schemes/") and t.count("/") >= 3}
            if suite and ok and "--whole-suite" not in sys.argv and len(pk) == 1 and "interface" not in next(iter(pk)) and \
                    all(t.startswith("schemes/%s/%s/" % next(iter(pk))) for t in touched):
                a_, b_ = next(iter(pk))
                cross = sh(f"grep -rlE 'schemes\\.{a_}\\.{b_}' {wt}/schemes {wt}/toolkit {wt}/test | "
                           f"grep -v '^{wt}/schemes/{a_}/{b_}/' | grep -v 'test_{a_}_{b_}.py'").stdout.strip()
                if not cross:
                    scheme_target = f"test/test_sse_schemes/test_{a_}_{b_}.py"
                    r = sh(f"cd {wt} && timeout 1800 /venv/bin/python -m pytest -q -p no:cacheprovider --timeout=900 "
                           f"{scheme_target} 2>&1 | tail -5")
                    mm1 = re.search(r"(\d+) passed", r.stdout)
                    bad1 = re.search(r"(\d+) failed|error", r.stdout)
                    ran.append(f"the only test file that imports the patched package ({scheme_target}; no other module "
                               f"imports schemes.{a_}.{b_}) on patched tree -> {r.stdout.strip().splitlines()[-1][:80]}")
                    if not mm1 or int(mm1.group(1)) != 5 or bad1:
                        ok = False
                        print("scheme test file outcome differs from baseline:", r.stdout[-200:])
                    suite = False
        if suite and ok:
            r = sh(f"cd {wt} && timeout 2400 /venv/bin/python -m pytest -q -p no:cacheprovider -n 8 --dist loadfile "
                   f"--timeout=900 {target} 2>&1 | tail -40")
            tail = r.stdout
            mm = re.search(r"(\d+) failed, (\d+) passed", tail)
            failed = set(re.findall(r"FAILED test/test_persistent_dict.py::TestDBMDict::(\w+)", tail))
            other = [l for l in tail.splitlines() if l.startswith(("FAILED", "ERROR")) and "TestDBMDict" not in l]
            want_pass = 29 if target else 90      # 17 array tests + 12 dict tests pass in the two persistence files
            ran.append((f"the test files that import the patched package ({target})" if target else "full suite")
                       + f" on patched tree -> {mm.group(0) if mm else tail[-200:]}")
            if not mm or int(mm.group(2)) != want_pass or int(mm.group(1)) != 10 or failed != EXPECTED_FAIL or other:
                ok = False
                print("suite outcome differs from baseline:", mm.group(0) if mm else "?", other[:5])
    finally:
        sh(f"git -C /repo worktree remove --force {wt}")
        shutil.rmtree(wt, ignore_errors=True)
    if not ok:
        print(f"REJECTED {prop} #{store_as}")
        return 1
    dst = os.path.join(HERE, "seeded", f"{prop}_{store_as}")
    os.makedirs(dst, exist_ok=True)
    shutil.copy(patch, os.path.join(dst, "patch.diff"))
    shutil.copy(demo, os.path.join(dst, "demo.py"))
    m = {}
    if os.path.exists(meta):
        try:
            m = json.load(open(meta))
        except Exception:
            m = {"raw": open(meta).read()[:2000]}
    m["property"] = prop
    m["confirmed_by_me"] = ran
    m["base_commit"] = sh("git -C /repo rev-parse --short HEAD").stdout.strip()
    if os.path.exists(os.path.join(HERE, "props", prop.lower() + ".py")):
        r = sh(f"{HERE}/tools/mutant_run.sh {dst}/patch.diff {prop} quick")
        verdict = r.stdout.strip()
        m["check_quick"] = {"rc": r.returncode, "summary": verdict[:600]}
    else:
        verdict = "(check not built yet)"
    json.dump(m, open(os.path.join(dst, "meta.json"), "w"), indent=1)
    print(f"CONFIRMED {prop} #{store_as}; ./check {prop} quick on it: {verdict[:300]}")
    return 0


if __name__ == "__main__":
    sys.exit(main())
