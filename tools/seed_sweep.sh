#!/bin/sh
# tools/seed_sweep.sh <tier> <seed> [<seed> ...]   -- run every check with each seed; print one line per non-zero exit
# (evidence and replay files go to a scratch directory so that /verif/evidence is not disturbed)
tier="$1"; shift
cd "$(dirname "$0")/.." || exit 2
ev=$(mktemp -d /tmp/vt_sweep_XXXXXX)
bad=0
for seed in "$@"; do
  for i in 01 02 03 04 05 06 07 08 09 10 11 12 13 14 15 16 17 18 19 20; do
    out=$(VERIF_SEED=$seed VERIF_EVIDENCE_DIR=$ev VERIF_REPLAY_DIR=$ev/replay ./check C$i $tier 2>&1)
    rc=$?
    if [ $rc -ne 0 ]; then bad=$((bad+1)); echo "seed=$seed C$i rc=$rc: $(echo "$out" | grep -m3 '^VIOLATION\|^INCONCLUSIVE' | cut -c1-400)"; fi
  done
  echo "seed $seed done"
done
echo "sweep finished: $bad non-zero exits"
rm -rf "$ev"
