"""Subprocess entry for C13: runs ONE component (server, or one client step) of the real frontend with file-system
interposition installed BEFORE any repository module is imported.

    python -m vlib.crashproc server                      -> prints 'READY <port>', serves until killed / crashed
    python -m vlib.crashproc client <step> <json-args>   -> runs one client step, exit 0 / 3 (step raised) / 137

env: HOME (the case's scratch home), VERIF_REPO, VERIF_CRASH='k:before|after' (optional), VERIF_FSLOG=path (optional)
"""
import asyncio
import json
import os
import sys
import traceback


def main():
    from vlib import fsint
    home = os.environ["HOME"]
    crash = os.environ.get("VERIF_CRASH", "")
    k, phase = (int(crash.split(":")[0]), crash.split(":")[1]) if crash else (None, None)
    fsint.install(os.path.join(home, ".sse"), k, phase, os.environ.get("VERIF_FSLOG"),
                  buffered=os.environ.get("VERIF_FS_BUFFERED") == "1")
    repo = os.environ.get("VERIF_REPO", "/repo")
    if repo not in sys.path:
        sys.path.insert(0, repo)
    from vlib import wsharness as wh
    role = sys.argv[1]
    if role == "server":
        env = wh.setup_env(virtual_sleep=True)

        async def serve():
            # started by the repository's own connector.run_server (whatever it does at start-up happens here too)
            srv = await wh.Server().start()
            print("READY", srv.port, flush=True)
            await asyncio.Future()
        asyncio.run(serve())
        return 0
    step = sys.argv[2]
    args = json.loads(sys.argv[3])
    env = wh.setup_env(virtual_sleep=True)
    if args.get("uri"):
        env["global_config"].ClientConfig.SERVER_URI = args["uri"]
    Service = env["cservice"].Service
    try:
        if step == "create":
            sid = Service().handle_create_config(args["cfg"])
            print("SID", sid, flush=True)
        elif step == "create-named":
            # the create-service COMMAND: service files plus the alias table (it prints errors instead of raising)
            import frontend.client.commands as cmds
            cmds.create_service(args["cfg_path"], args["sname"])
        elif step == "key":
            Service(args["sid"]).handle_create_key()
        elif step == "encrypt":
            db = {bytes.fromhex(k): [bytes.fromhex(i) for i in v] for k, v in args["db"].items()}
            Service(args["sid"]).handle_encrypt_database(db)
        elif step in ("upcfg", "upedb"):
            async def go():
                svc = Service(args["sid"])
                got = {}

                def cb(fut):
                    got["c"] = fut.result()
                if step == "upcfg":
                    await asyncio.wait_for(svc.handle_upload_config(wait=True, wait_callback_func=cb), 10)
                else:
                    await asyncio.wait_for(svc.handle_upload_encrypted_database(wait=True, wait_callback_func=cb), 10)
                await asyncio.wait_for(svc.close_service(), 5)
            asyncio.run(go())
        else:
            raise SystemExit(f"unknown step {step}")
    except SystemExit:
        raise
    except BaseException:
        traceback.print_exc()
        sys.stdout.flush()
        os._exit(3)
    sys.stdout.flush()
    os._exit(0)


if __name__ == "__main__":
    sys.exit(main())
