"""Run a subset of the repository's own tests under the in-situ contracts (the tests as one more workload)."""
import json
import os
import subprocess

from vlib.common import PYTHON, VERIF_DIR


def run(acc, ctx, files, signature_prefixes, timeout=900):
    repo = os.environ.get("VERIF_REPO", "/repo")
    out = os.path.join(ctx.scratch, "pytest_out.json")
    env = dict(os.environ, PYTHONPATH=VERIF_DIR + os.pathsep + repo, VERIF_PYTEST_OUT=out)
    cmd = [PYTHON, "-B", "-m", "pytest", "-q", "-x", "-p", "no:cacheprovider", "-p", "vlib.pytest_monitor",
           f"--rootdir={repo}"] + [os.path.join(repo, f) for f in files]
    try:
        r = subprocess.run(cmd, cwd=ctx.scratch, env=env, capture_output=True, text=True, timeout=timeout)
    except subprocess.TimeoutExpired:
        acc.count("repo_tests.timeout")
        acc.note("repository tests under monitors: timeout")
        return
    try:
        d = json.load(open(out))
    except Exception:
        acc.count("repo_tests.no_output")
        acc.note("repository tests under monitors produced no monitor output: " + r.stdout[-200:])
        return
    acc.count("repo_tests.runs")
    acc.count("repo_tests.collected", d.get("collected", 0))
    acc.count("repo_tests.failed", d.get("failed", 0))
    for k, v in d["counts"].items():
        acc.count("repo_tests.insitu." + k, v)
    for v in d["violations"]:
        if any(v["signature"].startswith(p) for p in signature_prefixes):
            acc.violation(v["signature"] + ":under-repo-tests", v["message"] + " (while the repository's own tests ran)",
                          v["case"])
