"""Monitors installed in every worker before the workload runs.

* function-entry tracking (sys.monitoring PY_START + DISABLE: near-zero overhead) -> which repository
  functions the workload actually reached; a check whose anchored function was never entered is inconclusive.
* in-situ contracts on the primitives (AES-CBC, HmacPRF, Bitset): cheap post-conditions evaluated on the real
  calls made by whatever workload is running (scheme setups, searches, the client/server workflow ...).
  Their evaluation counts are reported; their violations are reported under signatures 'insitu:*'.
All monitor state is per process and single-threaded (the repository has no threads sharing state).
"""
import hashlib
import os
import sys

_entered = set()
_installed = False
insitu_counts = {}
insitu_violations = []


def _count(k, n=1):
    insitu_counts[k] = insitu_counts.get(k, 0) + n


def _viol(sig, msg, case):
    if len(insitu_violations) < 20:
        insitu_violations.append({"signature": sig, "message": msg, "case": case})


def track_functions(repo):
    global _installed
    if _installed or not hasattr(sys, "monitoring"):
        return
    _installed = True
    mon = sys.monitoring
    tool = mon.PROFILER_ID
    try:
        mon.use_tool_id(tool, "verif-entered")
    except ValueError:
        return
    prefix = os.path.realpath(repo) + os.sep
    plen = len(prefix)

    def on_start(code, offset):
        fn = code.co_filename
        if fn.startswith(prefix):
            _entered.add(fn[plen:] + ":" + code.co_qualname)
        return mon.DISABLE

    mon.register_callback(tool, mon.events.PY_START, on_start)
    mon.set_events(tool, mon.events.PY_START)


def functions_entered():
    return sorted(_entered)


def install_primitive_monitors():
    """Wrap the real primitive classes (class attributes, so every instance is covered)."""
    import toolkit.symmetric_encryption.aes as aes_mod
    import toolkit.prf.hmac_prf as prf_mod
    import toolkit.bits as bits_mod

    AES = aes_mod.AESxCBC
    if getattr(AES, "_verif_wrapped", False):
        return
    AES._verif_wrapped = True
    orig_enc, orig_dec = AES.Encrypt, AES.Decrypt
    seen_iv = set()
    state = {"n": 0}

    def Encrypt(self, key, message):
        c = orig_enc(self, key, message)
        state["n"] += 1
        _count("aes.encrypt.post")
        if len(c) != 16 + 16 * (len(message) // 16 + 1):
            _viol("insitu:aes-cipher-length", f"len(c)={len(c)} for len(m)={len(message)}",
                  {"key": key.hex(), "message": message.hex()})
        # (key, IV) pairs must never repeat: the same pair encrypts equal plaintexts to equal ciphertexts.
        # (IVs alone may legitimately coincide under different keys in an implementation that derives them.)
        pair = hashlib.blake2b(key + c[:16], digest_size=12).digest()
        if pair in seen_iv:
            _viol("insitu:aes-iv-reuse", "the same (key, IV) pair was used for two encryptions in one process",
                  {"iv": c[:16].hex(), "key": key.hex()})
        elif len(seen_iv) < 2_000_000:
            seen_iv.add(pair)
        if state["n"] % 8 == 0:
            _count("aes.encrypt.roundtrip")
            try:
                back = orig_dec(self, key, c)
            except Exception as e:  # noqa
                back = e
            if back != message:
                _viol("insitu:aes-roundtrip", f"Decrypt(k, Encrypt(k, m)) gave {back!r:.80}",
                      {"key": key.hex(), "message": message.hex()})
        return c

    AES.Encrypt = Encrypt

    PRF = prf_mod.HmacPRF
    orig_call = PRF.__call__
    pstate = {"n": 0}

    def prf_call(self, key, message):
        out = orig_call(self, key, message)
        pstate["n"] += 1
        _count("prf.call.post")
        if len(out) != self.output_length:
            _viol("insitu:prf-length", f"len={len(out)} requested={self.output_length}",
                  {"key": key.hex(), "message": message.hex(), "n": self.output_length})
        if pstate["n"] % 16 == 0:
            _count("prf.call.determinism")
            if orig_call(self, key, message) != out:
                _viol("insitu:prf-nondeterministic", "two calls differ", {"key": key.hex(), "message": message.hex()})
        return out

    PRF.__call__ = prf_call

    B = bits_mod.Bitset

    def wrap_bits(name):
        orig = getattr(B, name)

        def w(self, *a, **k):
            r = orig(self, *a, **k)
            _count("bitset.result.invariant")
            if not (0 <= r.value < (1 << r.length)):
                _viol("insitu:bitset-invariant", f"{name} produced value {r.value} with length {r.length}",
                      {"op": name, "self": [self.value, self.length]})
            return r

        w.__name__ = name
        setattr(B, name, w)

    for nm in ("__and__", "__or__", "__xor__", "__invert__", "__lshift__", "__rshift__", "concat",
               "get_higher_bits", "get_lower_bits"):
        wrap_bits(nm)


class YieldInjector:
    """Context manager: inside it, every statement of the repository files under `subdirs` may hand the GIL to another
    thread (sys.monitoring LINE events + a very short switch interval). It manufactures no interleaving CPython
    threads cannot have - a thread switch is possible between any two bytecodes - it only makes the rare ones common.
    Lines of all other files are disabled at their first event, so the cost stays on the code under test."""

    def __init__(self, repo, subdirs=("toolkit",), every=3):
        self.prefixes = tuple(os.path.join(os.path.realpath(repo), d) + os.sep for d in subdirs)
        self.every = every
        self.yields = 0
        self.lines = 0
        self.ok = False

    def __enter__(self):
        import time
        mon = getattr(sys, "monitoring", None)
        self._old_interval = sys.getswitchinterval()
        sys.setswitchinterval(1e-6)
        if mon is None:
            return self
        self.tool = mon.DEBUGGER_ID
        try:
            mon.use_tool_id(self.tool, "verif-yield")
        except ValueError:
            return self
        self.ok = True
        prefixes, every = self.prefixes, self.every

        def on_line(code, line):
            if not code.co_filename.startswith(prefixes):
                return mon.DISABLE
            self.lines += 1
            if self.lines % every == 0:
                self.yields += 1
                time.sleep(0)

        mon.register_callback(self.tool, mon.events.LINE, on_line)
        mon.set_events(self.tool, mon.events.LINE)
        return self

    def __exit__(self, *exc):
        sys.setswitchinterval(self._old_interval)
        if self.ok:
            mon = sys.monitoring
            mon.set_events(self.tool, 0)
            mon.register_callback(self.tool, mon.events.LINE, None)
            mon.free_tool_id(self.tool)
        return False


def run_threads(workers, timeout=120):
    """Run the callables in threads; returns the list of exceptions that escaped (a watchdog expiry is reported as
    TimeoutError and is inconclusive, not a verdict)."""
    import threading
    errors = []

    def wrap(fn):
        def go():
            try:
                fn()
            except BaseException as e:  # noqa
                errors.append(e)
        return go
    ts = [threading.Thread(target=wrap(w), daemon=True) for w in workers]
    for t in ts:
        t.start()
    for t in ts:
        t.join(timeout)
        if t.is_alive():
            errors.append(TimeoutError("worker thread still running"))
    return errors


class ClockOffset:
    """Pushes the process's clocks forward for code that asks the `time` module (time, monotonic, perf_counter and
    their _ns forms): `with ClockOffset() as clk: ...; clk.advance(15)`. What the code under test does after that
    much idle time (expiring pools, refresh intervals) happens now. The real functions are restored on exit."""
    NAMES = ("time", "monotonic", "perf_counter")

    def __enter__(self):
        import time
        self._time = time
        self.offset = 0.0
        self._orig = {n: getattr(time, n) for n in self.NAMES}
        self._orig_ns = {n + "_ns": getattr(time, n + "_ns") for n in self.NAMES}
        for n, f in self._orig.items():
            setattr(time, n, (lambda f: (lambda: f() + self.offset))(f))
        for n, f in self._orig_ns.items():
            setattr(time, n, (lambda f: (lambda: f() + int(self.offset * 1e9)))(f))
        return self

    def advance(self, seconds):
        self.offset += seconds

    def __exit__(self, *exc):
        for n, f in {**self._orig, **self._orig_ns}.items():
            setattr(self._time, n, f)
        return False


# Byte patterns that content-sniffing code keys on: pickle protocol headers and STOP, JSON / repr punctuation,
# compression and BOM magics, NULs, 0xff, white space.  Used as forced PREFIXES or SUFFIXES of values that are
# random in the code under test (PRF outputs, os.urandom draws), see Steer.
MAGIC_PREFIXES = [b"\x80\x04\x95", b"\x80\x03", b"\x80\x02", b"\x80\x05\x95", b"\x80\x04", b"[", b"{", b'"', b"[]", b"{}",
                  b"null", b"b'", b"0x", b"\x00", b"\x00\x00\x00", b"\xff\xff\xff", b"\n", b" ", b"\t", b"\x1f\x8b",
                  b"x\x9c", b"BZh", b"\xef\xbb\xbf", b"(", b"]", b"}", b"N.", b"\x80", b"-", b"+", b"#", b"\\", b"%",
                  b"\r\n", b"\xc3\x28", b"\xed\xa0\x80"]
MAGIC_SUFFIXES = [b".", b"\x00", b"\x00\x00", b" ", b"\n", b"\r\n", b"=", b"==", b"\xff", b"]", b"}", b"'", b'"', b"\\",
                  b"\x80", b"\x01", b"\x10", b"\x10" * 4, b"\x0f" * 3, b"\xc3"]


class Steer:
    """Context manager that forces a FEW of the pseudo-random values the code under test draws to begin or end with
    byte patterns from MAGIC_PREFIXES / MAGIC_SUFFIXES.

    * HmacPRF outputs: the first time a (key, message, length) triple is evaluated inside the context it may be chosen
      (probability `p`, at most `cap` per arm()); its output is then `P + out[len(P):]` (or `out[:-len(S)] + S`) for that
      triple from then on. The function stays deterministic, keeps its lengths and differs from HMAC in a handful of
      points whose remaining >= 6 bytes are still HMAC output, so label collisions stay negligible; a triple evaluated
      before it was chosen is never changed afterwards (its earlier output may already be in an index).
    * os.urandom draws: the same with fresh random tails (keys, IVs, fillers, dummy keywords).
    What correct code must not do is behave differently because a random-looking value happens to look like a pickle,
    a JSON document, white space or padding."""

    def __init__(self, rng, p=0.12, cap=6, prf=True, urandom=True, cluster=0.0):
        """cluster: probability that a forced value gets the CASE's cluster prefix (random bytes drawn at arm(), as
        four bytes, values of at least 16 bytes only) instead of a magic pattern: many values then agree in their leading
        word and differ only further back - code that orders or compares by a leading word only
        shows here instead of at 2^18 entries."""
        self.rng, self.p, self.cap = rng, p, cap
        self.cluster = cluster
        self.cluster_prefix = b""
        self.do_prf, self.do_urandom = prf, urandom
        self.steered_prf = {}
        self.seen = set()
        self.steered_values = []
        self.patterns = []
        self.n_prf = self.n_ur = 0
        self.left = cap

    def arm(self):
        """new case: forget what was seen, allow `cap` more forced values"""
        self.seen.clear()
        self.steered_prf.clear()
        self.steered_values = []
        self.patterns = []
        self.left = self.cap
        self.cluster_prefix = bytes(self.rng.randrange(256) for _ in range(10))

    def _force(self, out):
        rng = self.rng
        n = len(out)
        if self.cluster and rng.random() < self.cluster:
            # (four bytes only: a PRF output may be split into fields - label || key - and the first field, which the
            # caller guarantees to be at least 16 bytes long, must keep enough random bytes not to collide)
            k = 4
            if n < 16:
                return None
            self.patterns.append("cluster:%d" % k)
            return self.cluster_prefix[:k] + out[k:]
        if rng.random() < 0.65:
            P = rng.choice(MAGIC_PREFIXES)
            if len(P) > n - 6:
                return None
            self.patterns.append("prefix:" + P.hex())
            return P + out[len(P):]
        S = rng.choice(MAGIC_SUFFIXES)
        if len(S) > n - 6:
            return None
        return out[:n - len(S)] + S

    def __enter__(self):
        import toolkit.prf.hmac_prf as prf_mod
        self._PRF = prf_mod.HmacPRF
        self._orig_call = inner = self._PRF.__call__
        self._orig_urandom = real_urandom = os.urandom
        me = self

        def prf_call(self, key, message):
            out = inner(self, key, message)
            trip = hashlib.blake2b(bytes(key) + b"|" + bytes(message) + b"|%d" % len(out), digest_size=10,
                                   person=str(len(bytes(key))).encode()).digest()
            f = me.steered_prf.get(trip)
            if f is not None:
                return f
            if trip not in me.seen:
                me.seen.add(trip)
                if me.left > 0 and me.rng.random() < me.p:
                    f = me._force(out)
                    if f is not None:
                        me.left -= 1
                        me.n_prf += 1
                        me.steered_prf[trip] = f
                        me.steered_values.append(f)
                        return f
            return out

        def urandom(n):
            out = real_urandom(n)
            if me.left > 0 and me.rng.random() < me.p / 2:
                f = me._force(out)
                if f is not None:
                    me.left -= 1
                    me.n_ur += 1
                    me.steered_values.append(f)
                    return f
            return out

        if self.do_prf:
            self._PRF.__call__ = prf_call
        if self.do_urandom:
            os.urandom = urandom
        return self

    def __exit__(self, *exc):
        self._PRF.__call__ = self._orig_call
        os.urandom = self._orig_urandom
        return False


class FailAt:
    """Source-free failpoint: inside the context the k-th executed statement of the repository files under `subdirs`
    raises `exc` (sys.monitoring LINE event whose callback raises) - what Ctrl-C, an alarm-driven deadline or an
    exception raised from a callback does to an operation in flight. k=None only counts statements (`lines`)."""

    def __init__(self, repo, k=None, exc=KeyboardInterrupt, subdirs=("toolkit", "schemes", "data_persistence")):
        self.prefixes = tuple(os.path.join(os.path.realpath(repo), d) + os.sep for d in subdirs)
        self.k, self.exc = k, exc
        self.lines = 0
        self.fired = False
        self.ok = False

    def __enter__(self):
        mon = getattr(sys, "monitoring", None)
        if mon is None:
            return self
        self.tool = mon.DEBUGGER_ID
        try:
            mon.use_tool_id(self.tool, "verif-failat")
        except ValueError:
            return self
        self.ok = True
        prefixes = self.prefixes

        def on_line(code, line):
            if not code.co_filename.startswith(prefixes):
                return mon.DISABLE
            self.lines += 1
            if self.k is not None and self.lines == self.k and not self.fired:
                self.fired = True
                raise self.exc("injected by the harness at statement %d (%s:%d)" % (self.k, code.co_filename[-40:], line))

        mon.register_callback(self.tool, mon.events.LINE, on_line)
        mon.set_events(self.tool, mon.events.LINE)
        return self

    def __exit__(self, *exc):
        if self.ok:
            mon = sys.monitoring
            mon.set_events(self.tool, 0)
            mon.register_callback(self.tool, mon.events.LINE, None)
            mon.free_tool_id(self.tool)
            try:
                mon.restart_events()
            except Exception:
                pass
        return False
