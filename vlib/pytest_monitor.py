"""pytest plugin (-p vlib.pytest_monitor): run the repository's own tests as one more workload under the in-situ
primitive contracts; evaluation counts and violations are written to $VERIF_PYTEST_OUT at session end."""
import json
import os


def pytest_configure(config):
    from vlib import instrument
    instrument.install_primitive_monitors()


def pytest_sessionfinish(session, exitstatus):
    from vlib import instrument
    out = os.environ.get("VERIF_PYTEST_OUT")
    if out:
        with open(out, "w") as f:
            json.dump({"counts": instrument.insitu_counts, "violations": instrument.insitu_violations,
                       "exitstatus": int(exitstatus), "collected": session.testscollected,
                       "failed": session.testsfailed}, f)
