"""./check <ID> quick|thorough [--replay PATH]

Runs the property's workload in up to 16 worker subprocesses (subprocess.Popen + wall-clock watchdog),
merges what the monitors observed, applies the known-findings file, writes evidence/<ID>.json and decides:
  exit 0  held on everything explored            (KNOWN-FINDING lines may be printed)
  exit 1  VIOLATION property=<id> replay=<path>  (a witness not listed in known_findings.json)
  exit 2  INCONCLUSIVE property=<id> reason=...  (monitor did not observe enough / watchdog / dead worker)
"""
import importlib
import json
import os
import shutil
import subprocess
import sys
import tempfile
import time

from vlib import common
from vlib.common import VERIF_DIR, REPO, PYTHON, log

MAX_WORKERS = int(os.environ.get("VERIF_WORKERS", "16"))


def load_known_findings():
    path = os.path.join(VERIF_DIR, "known_findings.json")
    if not os.path.exists(path):
        return {"open": [], "fixed": []}
    with open(path) as f:
        return json.load(f)


def run_shards(prop, specs, shard_timeout, workers=None):
    """Run each spec in its own subprocess; at most `workers` (default MAX_WORKERS) at a time. Returns (results, problems)."""
    workers = workers or MAX_WORKERS
    workdir = tempfile.mkdtemp(prefix="verif_run_", dir=common.scratch_root())
    results, problems = [], []
    env = dict(os.environ)
    env["PYTHONPATH"] = VERIF_DIR + os.pathsep + REPO
    env["VERIF_REPO"] = REPO
    env["SSEPY_VERIF"] = "1"
    # str/bytes hashing (and with it set / dict-of-bytes iteration order inside the code under test) varies from
    # shard to shard, reproducibly: derived from the run seed and the shard number unless the caller pinned it;
    # every violation records the value its shard ran with and --replay re-uses it
    pinned_hashseed = os.environ.get("PYTHONHASHSEED")
    env["PYTHONDONTWRITEBYTECODE"] = "1"
    pending = list(enumerate(specs))
    running = {}
    try:
        while pending or running:
            while pending and len(running) < workers:
                i, spec = pending.pop(0)
                spec_path = os.path.join(workdir, f"spec{i}.json")
                out_path = os.path.join(workdir, f"out{i}.json")
                err_path = os.path.join(workdir, f"err{i}.txt")
                with open(spec_path, "w") as f:
                    json.dump(spec, f)
                errf = open(err_path, "wb")
                if pinned_hashseed is not None:
                    hs = pinned_hashseed
                elif "replay" in spec and isinstance(spec["replay"], dict) and "pythonhashseed" in spec["replay"]:
                    hs = str(spec["replay"]["pythonhashseed"])
                else:
                    hs = str((int(spec.get("seed", 0)) * 1000003 + i * 7919) % 4294967291)
                # every second shard runs under `python -O` (assert statements stripped): what the code under test does
                # inside an assert must not be something a property depends on
                flags = ["-O"] if spec.get("python_O", i % 2 == 1) and "replay" not in spec else \
                    (["-O"] if isinstance(spec.get("replay"), dict) and spec["replay"].get("python_O") else [])
                shard_env = dict(env, PYTHONHASHSEED=hs)
                rep = spec.get("replay") if isinstance(spec.get("replay"), dict) else None
                ascii_io = (rep.get("ambient") or {}).get("ascii_io") if rep else (i % 5 == 4)
                if ascii_io and os.environ.get("VERIF_AMBIENT") != "plain":
                    # every fifth shard: an interpreter whose default text encoding is ASCII (the plain C locale without
                    # UTF-8 mode) - code that opens text files without naming the encoding behaves differently there
                    shard_env.update(LC_ALL="C", LANG="C", PYTHONUTF8="0", PYTHONCOERCECLOCALE="0")
                p = subprocess.Popen([PYTHON, *flags, "-u", "-B", "-m", "vlib.worker", prop, spec_path, out_path],
                                     cwd=VERIF_DIR, env=shard_env, stdout=errf,
                                     stderr=subprocess.STDOUT, start_new_session=True)
                running[i] = (p, time.monotonic(), out_path, err_path, errf, spec)
            time.sleep(0.05)
            for i in list(running):
                p, t0, out_path, err_path, errf, spec = running[i]
                rc = p.poll()
                if rc is None:
                    if time.monotonic() - t0 > shard_timeout:
                        try:
                            os.killpg(p.pid, 9)
                        except Exception:
                            p.kill()
                        p.wait()
                        errf.close()
                        problems.append(f"shard {i} ({spec.get('name', '')}) exceeded the {shard_timeout}s watchdog")
                        del running[i]
                    continue
                errf.close()
                del running[i]
                if rc == 0 and os.path.exists(out_path):
                    with open(out_path) as f:
                        results.append(json.load(f))
                else:
                    tail = ""
                    try:
                        with open(err_path, "rb") as f:
                            tail = f.read()[-1500:].decode("utf8", "replace")
                    except Exception:
                        pass
                    problems.append(f"shard {i} ({spec.get('name', '')}) died rc={rc}: {tail.strip()[-900:]}")
    finally:
        for i in list(running):
            try:
                os.killpg(running[i][0].pid, 9)
            except Exception:
                pass
        shutil.rmtree(workdir, ignore_errors=True)
    return results, problems


def write_replay(prop, violation):
    d = os.path.join(os.environ.get("VERIF_REPLAY_DIR") or os.path.join(VERIF_DIR, "replay"), prop)
    os.makedirs(d, exist_ok=True)
    name = common.fp(violation["signature"], violation["case"]) + ".json"
    path = os.path.join(d, name)
    with open(path, "w") as f:
        json.dump({"property": prop, **violation}, f, indent=1)
    return path


def main(argv):
    if len(argv) < 2:
        print(__doc__)
        return 2
    prop = argv[0].upper()
    mod = importlib.import_module("props." + prop.lower())
    seed = int(os.environ.get("VERIF_SEED", "0") or 0)

    if argv[1] == "--replay":
        spec = {"name": "replay", "replay": json.load(open(argv[2]))["case"], "seed": seed, "tier": "quick"}
        results, problems = run_shards(prop, [spec], 600)
        merged = common.merge(results)
        for p in problems:
            print(f"INCONCLUSIVE property={prop} reason={p}")
        if merged["n_violations"]:
            for v in merged["violations"]:
                print(f"VIOLATION property={prop} replay={argv[2]}  [{v['signature']}] {v['message']}")
            return 1
        print(f"replay: no violation reproduced ({merged['counters']})")
        return 2 if problems else 0

    tier = argv[1]
    if tier not in ("quick", "thorough"):
        print("tier must be quick or thorough")
        return 2
    t0 = time.monotonic()
    specs = mod.plan(tier, seed)
    for s in specs:
        s.setdefault("seed", seed)
        s.setdefault("tier", tier)
    shard_timeout = getattr(mod, "SHARD_TIMEOUT", {"quick": 240, "thorough": 1500})[tier]
    # a module whose shards mostly wait (settle sleeps of the frontend schedulers) may ask for more processes than cores
    workers = MAX_WORKERS * getattr(mod, "WORKERS_PER_CORE", 1) if "VERIF_WORKERS" not in os.environ else MAX_WORKERS
    results, problems = run_shards(prop, specs, shard_timeout, workers)
    merged = common.merge(results)
    fin = mod.finish(merged, tier, seed)  # -> {"coverage": {...}, "inconclusive": [reasons], "assumptions": [...]}
    for v in fin.get("violations", []):  # aggregate (whole-run) oracles decided in finish()
        merged["violations"].append(v)
        merged["n_violations"] += 1
    wall = time.monotonic() - t0

    known = load_known_findings()
    open_sigs = {(k["property"], k["signature"]): k for k in known.get("open", [])}
    unlisted, listed = [], {}
    for v in merged["violations"]:
        k = (prop, v["signature"])
        if k in open_sigs:
            listed.setdefault(v["signature"], v)
        else:
            unlisted.append(v)

    coverage = fin["coverage"]
    coverage.setdefault("events_observed", {k: v for k, v in sorted(merged["counters"].items())})
    if merged["samples"] and not coverage.get("samples"):
        coverage["samples"] = merged["samples"]
    # which functions of the property's anchored files did the workload actually enter (sys.monitoring PY_START)
    try:
        anchors = []
        with open(os.path.join(VERIF_DIR, "properties.jsonl")) as f:
            for line in f:
                rec = json.loads(line)
                if rec["id"] == prop:
                    anchors = rec["anchors"]["files"]
        entered = {}
        for fn in merged["sets"].get("functions_entered", ()):
            file, _, func = fn.partition(":")
            if file in anchors:
                entered.setdefault(file, []).append(func)
        coverage["anchored_functions_entered"] = {f: sorted(v)[:40] for f, v in sorted(entered.items())}
        coverage["anchored_files_never_entered"] = sorted(set(anchors) - set(entered))
    except Exception:
        pass
    envs = [json.loads(e) for e in merged["sets"].get("ambient_environments", ())]
    if envs:
        coverage["process_environments_of_the_shards"] = {
            "distinct": len(envs),
            "home_and_working_directory_names": sorted({e["home"][:12] for e in envs} | {e["cwd"][:12] for e in envs}),
            "umasks": sorted({oct(e["umask"]) for e in envs}), "time_zones": sorted({e["tz"] for e in envs}),
            "locales": sorted({e["locale"] for e in envs}), "recursion_limits": sorted({e["recursionlimit"] for e in envs})}
    coverage["shards"] = len(specs)
    coverage["shards_completed"] = len(results)
    if merged["notes"]:
        coverage["notes"] = merged["notes"][:20]
    evidence = {
        "property_id": prop, "tier": tier, "seed": seed,
        "level": getattr(mod, "LEVEL", "exploration"),
        "coverage": coverage,
        "assumptions": fin.get("assumptions", []),
        "wall_s": round(wall, 2),
        "violations": len(unlisted) if merged["n_violations"] <= len(merged["violations"]) else
        merged["n_violations"] - len(listed),
        "known_findings_reproduced": sorted(listed),
        "repo": REPO,
    }
    evdir = os.environ.get("VERIF_EVIDENCE_DIR") or os.path.join(VERIF_DIR, "evidence")
    os.makedirs(evdir, exist_ok=True)
    with open(os.path.join(evdir, prop + ".json"), "w") as f:
        json.dump(evidence, f, indent=1, sort_keys=True)

    for sig, v in sorted(listed.items()):
        print(f"KNOWN-FINDING: property={prop} {open_sigs[(prop, sig)].get('what', sig)}")
    rc = 0
    if unlisted:
        seen = set()
        for v in unlisted:  # one VIOLATION line (and replay file) per distinct mechanism signature
            if v["signature"] in seen:
                continue
            seen.add(v["signature"])
            if len(seen) > 15:
                continue
            path = write_replay(prop, v)
            print(f"VIOLATION property={prop} replay={path}  [{v['signature']}] {v['message'][:400]}")
        print(f"{prop} {tier}: {merged['n_violations']} violating observations, "
              f"{len(seen)} distinct mechanism signatures; evidence/{prop}.json written")
        rc = 1
    inconclusive = list(problems) + list(fin.get("inconclusive", []))
    if inconclusive and rc == 0:
        for r in inconclusive[:10]:
            print(f"INCONCLUSIVE property={prop} reason={r}")
        rc = 2
    if rc == 0:
        print(f"{prop} {tier}: held on {coverage.get('evaluations')} evaluations "
              f"({coverage.get('distinct_nontrivial')} distinct non-trivial) in {wall:.1f}s; "
              f"events: {json.dumps(coverage.get('events_observed'))[:600]}")
    return rc


if __name__ == "__main__":
    try:
        rc = main(sys.argv[1:])
        sys.stdout.flush()
    except BrokenPipeError:  # e.g. `./check ... | head -1`; the verdict is in the evidence file and the exit code
        try:
            sys.stdout = open(os.devnull, "w")
        except Exception:
            pass
        rc = 1
    sys.exit(rc)
