"""File-system interposition for crash injection (C13), harness side, no source change.

install(root, crash_at=None, phase=None, log_path=None) patches builtins.open / io.open and
os.mkdir / unlink / remove / rename / replace / rmdir so that every *mutation* of a path under `root`
(log files excluded) is a numbered event:
    mkdir, open-for-write, write (flushed at once, so the bytes are on disk before a kill - or, in buffered mode, left
    in the interpreter's buffer, so a kill loses them), unlink, rename/replace.
With crash_at=k the process is cut with os._exit(137) immediately BEFORE event k (phase 'before') or immediately
AFTER it (phase 'after').  With log_path the event list is written there at exit (count run).
"""
import atexit
import builtins
import io
import json
import os

EXIT_CODE = 137
state = {"n": 0, "events": [], "crash_at": None, "phase": None, "root": None, "log": None, "armed": True}


def _mine(path):
    try:
        p = os.path.abspath(os.fspath(path))
    except TypeError:
        return False
    if isinstance(p, bytes):
        p = p.decode("utf8", "replace")
    r = state["root"]
    if r is None or not p.startswith(r):
        return False
    rel = p[len(r):]
    return not (rel == "log" or rel.startswith("log" + os.sep))  # the loggers' files are not service state


def _event(kind, path, do):
    """Number the event, maybe crash before it, perform it, maybe crash after it."""
    if not state["armed"]:
        return do()
    state["n"] += 1
    k = state["n"]
    rel = os.path.relpath(os.path.abspath(os.fspath(path)), state["root"])
    state["events"].append([k, kind, rel])
    if state["log"] and state["crash_at"] is None:
        _flush_log()  # count run: keep the log current, the process may be terminated from outside
    if state["crash_at"] == k and state["phase"] == "before":
        _flush_log()
        os._exit(EXIT_CODE)
    r = do()
    if state["crash_at"] == k and state["phase"] == "after":
        _flush_log()
        os._exit(EXIT_CODE)
    return r


def _flush_log():
    if state["log"]:
        try:
            with _orig_open(state["log"], "w") as f:
                json.dump({"events": state["events"], "crashed_at": state["crash_at"], "phase": state["phase"]}, f)
        except Exception:
            pass


class _W:
    """Write-mode file wrapper: each write() is an event and is flushed immediately."""

    def __init__(self, f, path):
        object.__setattr__(self, "_f", f)
        object.__setattr__(self, "_path", path)

    def write(self, data):
        f = self._f

        def do():
            n = f.write(data)
            if not state.get("buffered"):
                f.flush()
            return n
        return _event("write", self._path, do)

    def writelines(self, lines):
        for l in lines:
            self.write(l)

    def __getattr__(self, name):
        return getattr(self._f, name)

    def __setattr__(self, name, value):
        setattr(self._f, name, value)

    def __enter__(self):
        self._f.__enter__()
        return self

    def __exit__(self, *a):
        return self._f.__exit__(*a)

    def __iter__(self):
        return iter(self._f)


_orig_open = builtins.open
_orig = {}


def _open(file, mode="r", *a, **k):
    if isinstance(file, int) or not _mine(file) or not any(c in mode for c in "wax+"):
        return _orig_open(file, mode, *a, **k)
    f = _event("open-" + mode.replace("b", ""), file, lambda: _orig_open(file, mode, *a, **k))
    return _W(f, file)


def _wrap1(name, kind):
    orig = getattr(os, name)
    _orig[name] = orig

    def w(path, *a, **k):
        if not _mine(path):
            return orig(path, *a, **k)
        return _event(kind, path, lambda: orig(path, *a, **k))
    setattr(os, name, w)


def _wrap2(name, kind):
    orig = getattr(os, name)
    _orig[name] = orig

    def w(src, dst, *a, **k):
        if not (_mine(src) or _mine(dst)):
            return orig(src, dst, *a, **k)
        return _event(kind, dst, lambda: orig(src, dst, *a, **k))
    setattr(os, name, w)


def install(root, crash_at=None, phase=None, log_path=None, buffered=False):
    """buffered=False: every write() reaches the file at once (the worst case for torn files).
    buffered=True: writes stay in the interpreter's own buffer until the code flushes or closes the file, and a kill
    loses them (the worst case for code that renames or publishes a file before its content is out)."""
    state.update(root=os.path.abspath(root) + os.sep, crash_at=crash_at, phase=phase, log=log_path, n=0, events=[],
                 buffered=buffered)
    builtins.open = _open
    io.open = _open
    for n in ("mkdir", "unlink", "remove", "rmdir"):
        _wrap1(n, n)
    for n in ("rename", "replace"):
        _wrap2(n, n)
    if log_path:
        atexit.register(_flush_log)


def disarm():
    state["armed"] = False


def arm():
    state["armed"] = True
