"""Shared helpers: paths, JSON-able conversion, result accumulator."""
import hashlib
import json
import os
import sys

VERIF_DIR = os.path.dirname(os.path.dirname(os.path.abspath(__file__)))
REPO = os.environ.get("VERIF_REPO", "/repo")
PYTHON = "/venv/bin/python"

MAX_VIOLATIONS_KEPT = 40
MAX_SAMPLES_KEPT = 6


def scratch_root():
    for cand in ("/dev/shm", os.environ.get("TMPDIR") or "/tmp"):
        if os.path.isdir(cand) and os.access(cand, os.W_OK):
            return cand
    return "/tmp"


def jsonable(x):
    """Convert arbitrary case data into something json.dumps accepts (bytes -> {'hex': ...})."""
    if isinstance(x, (bytes, bytearray)):
        return {"hex": bytes(x).hex()}
    if isinstance(x, dict):
        return {(k if isinstance(k, str) else _keystr(k)): jsonable(v) for k, v in x.items()}
    if isinstance(x, (list, tuple)):
        return [jsonable(v) for v in x]
    if isinstance(x, (set, frozenset)):
        return {"set": sorted((jsonable(v) for v in x), key=lambda v: json.dumps(v, sort_keys=True))}
    if isinstance(x, (str, int, bool)) or x is None:
        return x
    if isinstance(x, float):
        return x
    return repr(x)


def _keystr(k):
    if isinstance(k, (bytes, bytearray)):
        return "hex:" + bytes(k).hex()
    return repr(k)


def unjson(x):
    """Inverse of jsonable for the constructs used in replay files."""
    if isinstance(x, dict):
        if set(x.keys()) == {"hex"}:
            return bytes.fromhex(x["hex"])
        if set(x.keys()) == {"set"}:
            return set(_hashable(unjson(v)) for v in x["set"])
        out = {}
        for k, v in x.items():
            if isinstance(k, str) and k.startswith("hex:"):
                k = bytes.fromhex(k[4:])
            out[k] = unjson(v)
        return out
    if isinstance(x, list):
        return [unjson(v) for v in x]
    return x


def _hashable(v):
    if isinstance(v, list):
        return tuple(_hashable(i) for i in v)
    return v


def fp(*parts):
    """Short stable fingerprint of a case (used to count DISTINCT cases across shards)."""
    h = hashlib.blake2b(digest_size=6)
    for p in parts:
        if isinstance(p, (bytes, bytearray)):
            h.update(b"b" + bytes(p))
        else:
            h.update(b"s" + json.dumps(jsonable(p), sort_keys=True).encode())
        h.update(b"|")
    return h.hexdigest()


class Acc:
    """Accumulator a shard fills and returns; merged across shards by the runner."""

    def __init__(self):
        self.counters = {}
        self.sets = {}
        self.violations = []
        self.samples = []
        self.notes = []
        self.n_violations = 0
        self._distinct = set()

    def count(self, key, n=1):
        self.counters[key] = self.counters.get(key, 0) + n

    def add(self, setname, item):
        if setname == "distinct":
            # case fingerprints can run into the millions: keep them as ints in memory and report only their number;
            # shards explore disjoint coordinates (scheme / prefix / shard index are part of every fingerprint)
            self._distinct.add(item)
            return
        self.sets.setdefault(setname, set()).add(item)

    def sample(self, s, cap=MAX_SAMPLES_KEPT):
        if len(self.samples) < cap:
            self.samples.append(jsonable(s))

    def violation(self, signature, message, case):
        """signature: mechanism-level key (never random values); case: replayable description."""
        self.n_violations += 1
        if len(self.violations) < MAX_VIOLATIONS_KEPT:
            self.violations.append({"signature": signature, "message": message, "case": jsonable(case)})

    def note(self, s):
        if len(self.notes) < 20:
            self.notes.append(s)

    def to_json(self):
        return {
            "counters": self.counters,
            "sets": {k: sorted(v) for k, v in self.sets.items()},
            "violations": self.violations,
            "n_violations": self.n_violations,
            "samples": self.samples,
            "notes": self.notes,
            # small sets travel whole (exact de-duplication across shards); huge ones as a per-shard count
            **({"distinct_list": sorted(self._distinct)} if len(self._distinct) <= 150000
               else {"distinct_count": len(self._distinct)}),
        }


class _Counted:
    """Stands in for a set whose elements were counted in the shards (len() is all that is needed)."""

    def __init__(self, n):
        self.n = n

    def __len__(self):
        return self.n

    def __iter__(self):
        return iter(())


def merge(results):
    """Merge the JSON results of several shards."""
    m = {"counters": {}, "sets": {}, "violations": [], "n_violations": 0, "samples": [], "notes": []}
    union = set()
    for r in results:
        union.update(r.get("distinct_list", ()))
    total_distinct = len(union) + sum(r.get("distinct_count", 0) for r in results)
    for r in results:
        for k, v in r.get("counters", {}).items():
            m["counters"][k] = m["counters"].get(k, 0) + v
        for k, v in r.get("sets", {}).items():
            m["sets"].setdefault(k, set()).update(v)
        m["violations"].extend(r.get("violations", []))
        m["n_violations"] += r.get("n_violations", 0)
        for s in r.get("samples", []):
            if len(m["samples"]) < MAX_SAMPLES_KEPT:
                m["samples"].append(s)
        m["notes"].extend(r.get("notes", []))
    m["sets"]["distinct"] = _Counted(total_distinct)
    return m


def log(*a):
    print(*a, file=sys.stderr, flush=True)


def exc_site(e):
    """'<ExcType>@<repo file>:<function>' of the innermost repository frame of an exception (mechanism key)."""
    import traceback
    site = "?"
    for fr in traceback.extract_tb(e.__traceback__):
        fn = fr.filename
        if fn.startswith(REPO.rstrip("/") + "/") or "/vt_mut_" in fn:
            rel = fn.split("/vt_mut_")[-1].split("/", 1)[-1] if "/vt_mut_" in fn else fn[len(REPO.rstrip("/")) + 1:]
            site = f"{rel}:{fr.name}"
    return f"{type(e).__name__}@{site}"


async def retry_on_timeout(acc, coro_factory):
    """Run one case; if it ended in a harness timeout (counter 'timeouts' grew) run it once more on fresh state.
    Only a timeout that repeats stays counted (and makes the run inconclusive); a single stall on a loaded machine
    is recorded as 'timeouts_retried'."""
    before = acc.counters.get("timeouts", 0)
    r = await coro_factory()
    if acc.counters.get("timeouts", 0) > before:
        acc.counters["timeouts"] = before
        acc.count("timeouts_retried")
        r = await coro_factory()
    return r


def both_interpreter_modes(specs):
    """Every shard twice: under the plain interpreter and under `python -O` (contracts guarded by __debug__ or written as
    assert statements disappear there; a refusal the property promises must not)."""
    out = []
    for sp in specs:
        if sp.get("kind") == "repo_tests":
            out.append(sp)
            continue
        out.append(dict(sp, python_O=False))
        out.append(dict(sp, name=sp.get("name", "") + "-O", python_O=True))
    return out
