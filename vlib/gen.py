"""Seeded generators for the scheme-level properties (C01-C09): configuration grids, database classes,
keyword classes.  Everything draws from the random.Random passed in (never the global RNG).

A *case* is (scheme name, cfg dict, db dict, class names).  Databases are generated FOR a configuration so that
they are valid by the definition in C01: >= 1 keyword; keywords non-empty, no leading NUL, within the scheme's
keyword limit; lists non-empty, duplicate-free, identifiers of exactly the configured size and not all-zero;
capacities (SSE-1 array/dictionary, SSE-2 file count and max, Pi2Lev two-level limits) respected.
"""
import math

SCHEMES = ["CJJ14.PiBas", "CJJ14.PiPack", "CJJ14.PiPtr", "CJJ14.Pi2Lev", "CGKO06.SSE1", "CGKO06.SSE2",
           "CT14.Pi", "ANSS16.Scheme3", "DP17.Pi"]
SHORT = {s: s.split(".")[1] if s.split(".")[1] not in ("Pi", "Scheme3") else s.split(".")[0] for s in SCHEMES}
SET_RESULT = {"DP17.Pi"}
SORTED_TABLE_SCHEMES = ["CJJ14.PiBas", "CJJ14.PiPack", "CJJ14.PiPtr", "CJJ14.Pi2Lev", "CT14.Pi", "ANSS16.Scheme3"]

# Set by the checks whose property does not fix the identifier length (C01-C03, C07): PiBas databases may then mix
# identifier lengths. The shape / layout properties (C04-C06) are stated for fixed-size identifiers.
MIXED_ID_SIZES = False

DB_CLASSES = ["tiny", "single-pow2", "pow2-edge", "block-edge", "many-singletons", "one-heavy", "shared-id",
              "zero-bytes", "zipf", "array-edge"]


def default_config(scheme):
    import schemes
    return dict(schemes.load_sse_module(scheme).SSEConfig.get_default_config())


# --------------------------------------------------------------------------------------------- configurations
def handpicked_configs(scheme):
    """List of (cfg_id, overrides) moving every parameter away from its default at least once."""
    out = [("default", {})]
    if scheme == "CJJ14.PiBas":
        for lam in (16, 24):
            out.append((f"lam{lam}", {"param_lambda": lam, "prf_f_output_length": lam}))
    elif scheme == "CJJ14.PiPack":
        for lam, B, isz in ((16, 1, 1), (24, 2, 4), (32, 3, 8), (16, 8, 16), (32, 64, 4), (32, 5, 2)):
            out.append((f"lam{lam}-B{B}-id{isz}", {"param_lambda": lam, "prf_f_output_length": lam, "param_B": B,
                                                    "param_identifier_size": isz}))
    elif scheme == "CJJ14.PiPtr":
        for lam, B, b, isz in ((16, 1, 1, 1), (24, 2, 3, 4), (32, 3, 2, 8), (16, 8, 64, 16), (32, 64, 1, 4),
                               (32, 2, 2, 8)):
            out.append((f"lam{lam}-B{B}-b{b}-id{isz}", {"param_lambda": lam, "prf_f_output_length": lam,
                                                        "param_B": B, "param_b": b, "param_identifier_size": isz}))
    elif scheme == "CJJ14.Pi2Lev":
        for lam, B, b, Bp, bp, isz in ((32, 2, 2, 2, 2, 8), (16, 4, 2, 4, 2, 8), (24, 3, 3, 5, 5, 8),
                                       (32, 8, 8, 64, 64, 8), (16, 1, 1, 1, 1, 4), (32, 4, 4, 2, 2, 2),
                                       (32, 2, 4, 2, 4, 8), (32, 6, 3, 4, 2, 4),
                                       (32, 4, 4, 5, 5, 8), (16, 4, 3, 5, 4, 8)):
            out.append((f"lam{lam}-B{B}-b{b}-Bp{Bp}-bp{bp}-id{isz}",
                        {"param_lambda": lam, "prf_f_output_length": lam, "param_B": B, "param_b": b,
                         "param_B_prime": Bp, "param_b_prime": bp, "param_identifier_size": isz}))
    elif scheme == "CGKO06.SSE1":
        out = []
        for k, l, s, isz in ((24, 32, 64, 8), (16, 8, 16, 4), (32, 16, 256, 16), (24, 32, 1024, 8), (16, 16, 4, 8),
                             (32, 8, 64, 4), (24, 40, 64, 8), (16, 20, 16, 8)):  # l = 40 / 20: PRP halves of 160 / 80 bits
            out.append((f"k{k}-l{l}-s{s}-id{isz}", {"param_k": k, "param_l": l, "param_s": s,
                                                    "param_identifier_size": isz}))
    elif scheme == "CGKO06.SSE2":
        out = []
        for k, l, mfs, isz in ((24, 32, 1000, 8), (16, 8, 64, 4), (32, 16, 2 ** 20, 16), (24, 8, 1000, 8),
                               (24, 40, 64, 8), (16, 20, 1000, 8)):
            out.append((f"k{k}-l{l}-mfs{mfs}-id{isz}", {"param_k": k, "param_l": l, "param_max_file_size": mfs,
                                                        "param_identifier_size": isz}))
    elif scheme == "CT14.Pi":
        for k, kp, l, isz in ((8, 16, 8, 4), (16, 24, 16, 8), (20, 32, 32, 16), (48, 16, 16, 4), (32, 32, 8, 8),
                              (32, 32, 32, 1), (16, 16, 16, 2)):
            out.append((f"k{k}-kp{kp}-l{l}-id{isz}", {"param_k": k, "param_k_prime": kp, "param_l": l,
                                                      "param_identifier_size": isz}))
    elif scheme == "ANSS16.Scheme3":
        for lam, k, l, lp, isz in ((8, 16, 8, 8, 4), (16, 24, 16, 32, 8), (48, 32, 32, 16, 4), (32, 16, 8, 32, 8),
                                   (16, 16, 16, 16, 4), (32, 32, 32, 32, 1), (16, 16, 8, 8, 2)):
            out.append((f"lam{lam}-k{k}-l{l}-lp{lp}-id{isz}",
                        {"param_lambda": lam, "param_k": k, "param_k_prime": k, "param_l": l, "param_l_prime": lp,
                         "param_identifier_size": isz}))
    elif scheme == "DP17.Pi":
        for lam, ratio, L, isz, h in ((16, 0.1, 1, 4, "SHA1"), (24, 0.5, 2, 8, "sha256"), (32, 1.0, 3, 16, "md5"),
                                      (32, 0.2, 8, 8, "SHA1"), (16, 0.5, 1, 8, "sha256"), (32, 0.2, 2, 4, "md5")):
            out.append((f"lam{lam}-r{ratio}-L{L}-id{isz}-{h}",
                        {"param_lambda": lam, "param_actual_storage_level_ratio": ratio, "param_L": L,
                         "param_identifier_size": isz, "hash_h": h}))
    return out


def random_config(scheme, rng):
    c = rng.choice
    if scheme == "CJJ14.PiBas":
        lam = c([16, 24, 32])
        return {"param_lambda": lam, "prf_f_output_length": lam}
    if scheme == "CJJ14.PiPack":
        lam = c([16, 24, 32])
        return {"param_lambda": lam, "prf_f_output_length": lam, "param_B": c([1, 2, 3, 4, 7, 8, 64]),
                "param_identifier_size": c([1, 2, 4, 8, 16])}
    if scheme == "CJJ14.PiPtr":
        lam = c([16, 24, 32])
        return {"param_lambda": lam, "prf_f_output_length": lam, "param_B": c([1, 2, 3, 4, 8, 64]),
                "param_b": c([1, 2, 3, 8, 64]), "param_identifier_size": c([1, 2, 4, 8, 16])}
    if scheme == "CJJ14.Pi2Lev":
        lam = c([16, 24, 32])
        for _ in range(200):
            B, b, isz = c([1, 2, 3, 4, 6, 8]), c([1, 2, 3, 4, 6, 8]), c([2, 4, 8])
            Bp, bp = c([1, 2, 3, 4, 5, 8, 16]), c([1, 2, 3, 4, 5, 8, 16])
            w = (B * isz) // Bp
            if w >= 1 and (b * isz) // bp == w:
                return {"param_lambda": lam, "prf_f_output_length": lam, "param_B": B, "param_b": b,
                        "param_B_prime": Bp, "param_b_prime": bp, "param_identifier_size": isz}
        return {"param_lambda": lam, "prf_f_output_length": lam, "param_B": 2, "param_b": 2, "param_B_prime": 2,
                "param_b_prime": 2, "param_identifier_size": 8}
    if scheme == "CGKO06.SSE1":
        return {"param_k": c([16, 24, 32]), "param_l": c([8, 16, 20, 32, 40]), "param_s": c([4, 16, 64, 64, 256, 1024]),
                "param_identifier_size": c([4, 8, 16])}
    if scheme == "CGKO06.SSE2":
        return {"param_k": c([16, 24, 32]), "param_l": c([8, 16, 20, 32, 40]), "param_max_file_size": c([64, 1000, 2 ** 20]),
                "param_identifier_size": c([4, 8, 16])}
    if scheme == "CT14.Pi":
        return {"param_k": c([8, 16, 20, 32, 48]), "param_k_prime": c([16, 24, 32]), "param_l": c([8, 16, 32]),
                "param_identifier_size": c([1, 2, 4, 8, 16])}
    if scheme == "ANSS16.Scheme3":
        k = c([16, 24, 32])
        return {"param_lambda": c([8, 16, 32, 48]), "param_k": k, "param_k_prime": k, "param_l": c([8, 16, 32]),
                "param_l_prime": c([8, 16, 32]), "param_identifier_size": c([1, 2, 4, 8])}
    if scheme == "DP17.Pi":
        return {"param_lambda": c([16, 24, 32]), "param_actual_storage_level_ratio": c([0.1, 0.2, 0.5, 1.0]),
                "param_L": c([1, 2, 3, 8]), "param_identifier_size": c([4, 8, 16]), "hash_h": c(["SHA1", "sha256", "md5"])}
    raise ValueError(scheme)


def pick_config(scheme, rng, i):
    """i-th configuration of a shard: walk the hand-picked list first, then random draws."""
    hp = handpicked_configs(scheme)
    if i < len(hp):
        cid, over = hp[i]
    else:
        over = random_config(scheme, rng)
        cid = "rnd:" + ",".join(f"{k.replace('param_', '')}={v}" for k, v in sorted(over.items()))
    cfg = default_config(scheme)
    cfg.update(over)
    return cid, cfg


# --------------------------------------------------------------------------------------------- capacities
def caps(scheme, cfg):
    """Limits a valid database has to respect for this configuration."""
    c = {"id_size": cfg.get("param_identifier_size", 8), "kw_limit": 40, "max_total": 10 ** 9,
         "max_keywords": 10 ** 9, "max_list": 10 ** 9, "max_files_per_kw_total": None}
    if scheme == "CGKO06.SSE1":
        c["kw_limit"] = cfg["param_l"]
        c["max_total"] = cfg["param_s"] - 1
        c["max_keywords"] = cfg["param_dictionary_size"]
    elif scheme == "CGKO06.SSE2":
        c["kw_limit"] = cfg["param_l"]
    elif scheme == "CJJ14.Pi2Lev":
        c["max_list"] = max(cfg["param_b"], cfg["param_B"] * cfg["param_b_prime"],
                            cfg["param_B"] * cfg["param_B_prime"] * cfg["param_b_prime"] - 1)
        c["index_size"] = (cfg["param_B"] * cfg["param_identifier_size"]) // cfg["param_B_prime"]
        c["max_A_len"] = 2 ** (8 * c["index_size"])
    return c


def pi2lev_A_len(cfg, lens):
    a = 1
    for n in lens:
        if n > cfg["param_b"]:
            a += math.ceil(n / cfg["param_B"])
        if n > cfg["param_b_prime"] * cfg["param_B"]:
            a += math.ceil(n / (cfg["param_B"] * cfg["param_B_prime"]))
    return a


def pi2lev_case_of(cfg, n):
    if n <= cfg["param_b"]:
        return "small"
    if n <= cfg["param_B"] * cfg["param_b_prime"]:
        return "medium"
    return "large"


# --------------------------------------------------------------------------------------------- identifiers / keywords
def gen_id(rng, size, zero_rich=False):
    while True:
        if zero_rich and rng.random() < 0.5:
            # document numbers: small integers and round numbers, big-endian on the full width (one identifier ends
            # with zero bytes, its neighbour starts with them)
            v = rng.choice([rng.randint(1, 300), rng.randint(1, 300) << (8 * rng.randrange(size)), 256, 65536, 5, 512])
            b = (v % (256 ** size)).to_bytes(size, "big")
        elif zero_rich:
            b = bytearray(size)
            for _ in range(rng.randint(1, max(1, (size + 1) // 2))):
                b[rng.randrange(size)] = rng.choice([1, 0x80, 0xff, rng.randrange(1, 256)])
            b = bytes(b)
        else:
            b = rng.randbytes(size)
        if any(b):
            return b


def gen_ids(rng, size, n, zero_rich=False, pool=None):
    """n distinct identifiers (from `pool` when given and large enough)."""
    if pool is not None and len(pool) >= n:
        return rng.sample(pool, n)
    out, seen = [], set()
    if n > 200 or 256 ** size - 1 < 4 * n:
        # small identifier spaces: enumerate
        space = 256 ** size - 1
        if n > space:
            raise ValueError("identifier space too small")
        if space < 70000:
            vals = rng.sample(range(1, space + 1), n)
            return [v.to_bytes(size, "big") for v in vals]
    while len(out) < n:
        b = gen_id(rng, size, zero_rich)
        if b not in seen:
            seen.add(b)
            out.append(b)
    return out


def gen_keyword(rng, limit, used, min_len=1):
    for _ in range(1000):
        n = rng.choice([1, 2, 3, rng.randint(1, limit), limit]) if min_len <= 1 else rng.randint(min_len, limit)
        n = max(1, min(limit, n))
        kw = bytes([rng.randrange(1, 256)]) + rng.randbytes(n - 1)
        if kw not in used:
            return kw
    raise ValueError("keyword space exhausted")


def close_keywords(rng, stored, limit, ids=()):
    """Keywords adversarially close to stored ones (prefix, suffix, +NUL, flipped last byte, doubled, an id)."""
    out = []
    for w in stored:
        cand = [w[:-1], w[1:], w + b"\x00", w[:-1] + bytes([w[-1] ^ 1]), w + w, w + b"\x01", b"\x01" + w,
                w[:len(w) // 2], w.upper(), w + b" "]
        for c in cand:
            if c and c[0] != 0 and len(c) <= limit and c not in stored:
                out.append((c, "close"))
    for i in ids:
        if i and i[0] != 0 and len(i) <= limit and i not in stored:
            out.append((i, "id-as-keyword"))
    rng.shuffle(out)
    return out


def absent_keywords(rng, db, limit, k_random=4, k_close=8):
    stored = set(db)
    res = []
    some = rng.sample(sorted(stored), min(len(stored), 4))
    ids = [l[0] for l in list(db.values())[:3]]
    for c, fam in close_keywords(rng, some, limit, ids)[:k_close]:
        if c not in stored:
            res.append((c, fam))
    for _ in range(k_random):
        res.append((gen_keyword(rng, limit, stored), "random"))
    return res


# --------------------------------------------------------------------------------------------- databases
def list_lengths(rng, scheme, cfg, cls, cp, scale):
    """Posting-list length profile for a database class (before capacity clipping)."""
    big = scale  # soft upper bound on N
    if cls == "tiny":
        return rng.choice([[1], [2], [1, 1], [1, 2], [3]])
    if cls == "single-pow2":
        return [2 ** rng.randint(0, max(1, int(math.log2(big))))]
    if cls == "pow2-edge":
        t = rng.randint(1, max(2, int(math.log2(big))))
        total = max(1, 2 ** t + rng.choice([-1, 0, 1]))
        return partition(rng, total, rng.choice([1, 2, 3, rng.randint(1, max(1, min(total, 8)))]))
    if cls == "block-edge":
        cands = set()
        B = cfg.get("param_B")
        b = cfg.get("param_b")
        Bp, bp = cfg.get("param_B_prime"), cfg.get("param_b_prime")
        L = cfg.get("param_L")
        for x in (B, b):
            if x:
                cands.update([x - 1, x, x + 1, 2 * x, 2 * x + 1])
        if B and b and scheme == "CJJ14.PiPtr":
            cands.update([B * b - 1, B * b, B * b + 1])
        if scheme == "CJJ14.Pi2Lev":
            cands.update([B * bp - 1, B * bp, B * bp + 1, B * Bp * bp - 1, B * Bp * bp - 2, B * Bp + 1, B * Bp])
        if L:
            cands.update([L, L + 1, 2 * L, 2 * L + 1, 4 * L, 4 * L + 1])
        cands.update([1, 2, 3, 4, 5, 7, 8, 9, 15, 16, 17])
        cands = [x for x in cands if 1 <= x <= max(big * 4, 8)]
        k = rng.randint(1, 4)
        return [rng.choice(cands) for _ in range(k)]
    if cls == "array-edge":
        # the number of array entries / postings sits on a one-byte boundary (255, 256, 257): PiPtr counts identifier
        # blocks of B entries (its pointers are ceil(log2 |A| / 8) bytes wide), the other schemes postings
        target = rng.choice([255, 256, 256, 257])
        k = rng.choice([1, 2, 3, rng.randint(1, 8)])
        parts = partition(rng, target, k)
        if scheme == "CJJ14.PiPtr":
            B = cfg["param_B"]
            return [p * B - rng.randrange(B) for p in parts]
        return parts
    if cls == "many-singletons":
        return [1] * rng.randint(3, max(4, min(big, 40)))
    if cls == "one-heavy":
        return [rng.randint(max(2, big // 2), max(3, big))] + [rng.randint(1, 2) for _ in range(rng.randint(0, 4))]
    if cls in ("shared-id", "zero-bytes", "zipf"):
        k = rng.randint(2, 8)
        return [max(1, int(big / (2 * (r + 1)) * rng.uniform(0.5, 1.2))) for r in range(k)]
    raise ValueError(cls)


def partition(rng, total, k):
    k = max(1, min(k, total))
    cuts = sorted(rng.sample(range(1, total), k - 1)) if k > 1 else []
    parts = [b - a for a, b in zip([0] + cuts, cuts + [total])]
    return parts


def make_db(rng, scheme, cfg, cls, scale=48):
    """Return (db, info) valid for (scheme, cfg); cfg may be completed in place (SSE-2 param_n, SSE-1 dictionary)."""
    cp = caps(scheme, cfg)
    isz = cp["id_size"]
    if scheme == "CGKO06.SSE1":
        scale = min(scale, cp["max_total"])
        if scale < 1:
            raise ValueError("SSE1 array too small")
    lens = [max(1, n) for n in list_lengths(rng, scheme, cfg, cls, cp, max(1, scale))]
    # clip to capacities
    lens = [min(n, cp["max_list"]) for n in lens]
    lens = [min(n, 256 ** isz - 1) for n in lens]  # a list is duplicate-free
    if scheme == "CJJ14.Pi2Lev":
        while pi2lev_A_len(cfg, lens) > cp["max_A_len"] and lens:
            lens[lens.index(max(lens))] = max(1, max(lens) // 2)
            if max(lens) <= cfg["param_b"]:
                break
    while sum(lens) > cp["max_total"]:
        i = lens.index(max(lens))
        if lens[i] > 1:
            lens[i] -= 1
        else:
            lens.pop()
    lens = lens[:cp["max_keywords"]]
    return db_from_lens(rng, scheme, cfg, lens, cls)


def db_from_lens(rng, scheme, cfg, lens, cls="profile", fix_config=True, kw_min=1, kw_max=None):
    """Build a database with exactly the given posting-list lengths (caller guarantees they respect capacities)."""
    cp = caps(scheme, cfg)
    isz = cp["id_size"]
    zero_rich = cls == "zero-bytes"
    used = set()
    db = {}
    pool = None
    shared = gen_id(rng, isz, zero_rich) if cls == "shared-id" else None
    total_ids = sum(lens)
    if scheme == "CGKO06.SSE2":
        # keep the number of distinct files small: tokens cost n PRP calls each
        nfiles = min(max(max(lens), min(total_ids, 14)), 256 ** isz - 1)
        pool = gen_ids(rng, isz, nfiles, zero_rich)
    # one database in six lets keywords of equal list length share ONE list object (db[b"colour"] = db[b"color"]):
    # equal to a database with separate lists, but in-place work on one keyword's list then reaches the other
    alias = rng.random() < 1 / 6
    mixed_sizes = MIXED_ID_SIZES and scheme == "CJJ14.PiBas" and "param_identifier_size" not in cfg and rng.random() < 0.25
    by_len = {}
    aliased = 0
    for n in lens:
        kw = gen_keyword(rng, min(cp["kw_limit"], kw_max or cp["kw_limit"]), used, kw_min)
        used.add(kw)
        if alias and n in by_len and rng.random() < 0.7:
            db[kw] = by_len[n]
            aliased += 1
            continue
        ids = gen_ids(rng, isz, n, zero_rich, pool)
        if mixed_sizes:
            # PiBas has no identifier-size parameter: identifiers of several lengths (several AES padding classes)
            ids = list(dict.fromkeys(rng.randbytes(rng.choice([4, 8, 15, 16, 17, 32])) or b"\x01" for _ in range(n)))
            while len(ids) < n:
                ids.append(rng.randbytes(20))
            ids = [i if any(i) else b"\x01" + i[1:] for i in ids]
        if shared is not None and shared not in ids:
            ids[rng.randrange(len(ids))] = shared
        db[kw] = ids
        by_len[n] = ids
    info = {"class": cls, "N": sum(len(v) for v in db.values()), "keywords": len(db),
            "lens": sorted((len(v) for v in db.values()), reverse=True)[:8], "aliased_lists": aliased}
    if scheme == "CGKO06.SSE2" and fix_config:
        files = len({i for v in db.values() for i in v})
        # param_n is an upper bound the user chooses: exact, a little slack, or a generous bound (which can cross a
        # power of two of n + max and so select another PRP width than the exact count would)
        slack = rng.choices([0, 3, files, 2 * files + 1, "next-width"], [50, 15, 15, 10, 10])[0]
        if slack == "next-width":
            # the smallest bound for which n + max needs one more bit than (number of files) + max does
            mx = sse2_param_max(cfg["param_max_file_size"])
            nxt = 2 ** math.ceil(math.log2(files + mx)) - mx + 1
            slack = nxt - files if files < nxt <= 160 else 3
        cfg["param_n"] = files + slack
    if scheme == "CGKO06.SSE1" and fix_config:
        cfg["param_dictionary_size"] = rng.choice([len(db), len(db) + 5, 64]) if "param_dictionary_size_fixed" not in cfg \
            else cfg["param_dictionary_size"]
        cfg["param_dictionary_size"] = max(cfg["param_dictionary_size"], len(db))
    if scheme == "CJJ14.Pi2Lev":
        info["pi2lev_cases"] = sorted({pi2lev_case_of(cfg, len(v)) for v in db.values()})
    return db, info


def sse2_param_max(max_document_size):
    """SSE-2's `max` (most keywords a document of the maximal size can hold), as its configuration documents it."""
    result, size, used = 0, 1, 0
    while True:
        if used + 2 ** (size * 8) * size > max_document_size:
            return result + (max_document_size - used) // size
        result += 2 ** (size * 8)
        used += 2 ** (size * 8) * size
        size += 1


def db_fingerprint(db):
    from vlib.common import fp
    return fp([[k, v] for k, v in db.items()])


def magic_db(rng, scheme, cfg, db):
    """Rename some keywords and replace some identifiers (consistently) by values with magic prefixes / suffixes; the
    database stays valid: keyword lengths within the limit and first byte non-zero, identifier size kept, non-zero."""
    from vlib.instrument import MAGIC_PREFIXES, MAGIC_SUFFIXES
    cp = caps(scheme, cfg)
    out = {}
    idmap = {}
    n_kw = n_id = 0
    for w, ids in db.items():
        w2 = w
        if rng.random() < 0.4:
            if rng.random() < 0.6:
                P = rng.choice(MAGIC_PREFIXES)
                cand = P + w[len(P):] if len(w) > len(P) + 2 else (P + w)
            else:
                S = rng.choice(MAGIC_SUFFIXES)
                cand = w + S
            if cand and cand[0] != 0 and len(cand) <= cp["kw_limit"] and cand not in db and cand not in out:
                w2 = cand
                n_kw += 1
        new = []
        for i in ids:
            if i not in idmap:
                j = i
                if rng.random() < 0.3 and len(i) >= 4:
                    if rng.random() < 0.6:
                        P = rng.choice(MAGIC_PREFIXES)
                        j = (P + i[len(P):])[:len(i)] if len(P) <= len(i) - 2 else i
                    else:
                        S = rng.choice(MAGIC_SUFFIXES)
                        j = i[:len(i) - len(S)] + S if len(S) <= len(i) - 2 else i
                    if not any(j) or j in idmap.values() or any(j in v for v in db.values()):
                        j = i
                    elif j != i:
                        n_id += 1
                idmap[i] = j
            new.append(idmap[i])
        out[w2] = new
    return out, n_kw, n_id
