"""Twin interpreters: two FRESH python processes that agree on everything a program can cheaply seed itself from -
the same wall-clock second (different fractions), the same process id, the same hash seed, the same environment and
working directory - as two identical containers started by one scheduler tick do.  Each runs one task against the
repository (imported only after the clock has been set, so import-time seeding sees it) and reports back.

    python -B -m vlib.twin <task.pickle> <out.pickle> <fraction>

Tasks (dict with "kind"):
  c14  {"key", "message", "n"}                           -> list of ciphertexts
  c04  {"scheme", "cfg", "db", "key_bytes"}              -> list of 16-byte digests of the index's ciphertext units
  c06  {"scheme", "cfg", "db", "key_bytes" | None}       -> (slot map, level sizes)
What two twins must not do is produce the same randomised output.
"""
import os
import pickle
import subprocess
import sys
import tempfile

T0 = 1_900_000_000          # the second both twins believe it is
PID = 4242


def _set_clock(frac):
    import time
    real = {n: getattr(time, n) for n in ("time", "monotonic", "perf_counter")}
    start = {n: f() for n, f in real.items()}
    base = {"time": T0 + frac, "monotonic": 5000.0 + frac, "perf_counter": 5000.0 + frac}
    for n, f in real.items():
        setattr(time, n, (lambda n, f: (lambda: base[n] + (f() - start[n])))(n, f))
        setattr(time, n + "_ns", (lambda n, f: (lambda: int((base[n] + (f() - start[n])) * 1e9)))(n, f))
    os.getpid = lambda: PID
    os.getppid = lambda: PID - 1


def main():
    task_path, out_path, frac = sys.argv[1], sys.argv[2], float(sys.argv[3])
    _set_clock(frac)
    repo = os.environ.get("VERIF_REPO", "/repo")
    sys.path.insert(0, repo)
    with open(task_path, "rb") as f:
        task = pickle.load(f)
    kind = task["kind"]
    if kind == "c14":
        import toolkit.symmetric_encryption as se
        ske = se.get_symmetric_encryption_implementation("AES-CBC")(key_length=len(task["key"]))
        res = [ske.Encrypt(task["key"], task["message"]) for _ in range(task["n"])]
    else:
        import copy
        import hashlib
        from vlib import sse
        scheme, cfg, db = task["scheme"], task["cfg"], task["db"]
        L = sse.loader(scheme)
        sch = L.SSEScheme(cfg)
        cobj = L.SSEConfig(cfg)
        key = L.SSEKey.deserialize(task["key_bytes"], cobj) if task.get("key_bytes") is not None else sch.KeyGen()
        edb = sch.EDBSetup(key, copy.deepcopy(db))
        if kind == "c04":
            from props import c04
            res = [hashlib.blake2b(u, digest_size=16).digest() for u in c04.cipher_units(scheme, sch, edb)]
        elif kind == "c06":
            from props import c06
            levels = {lvl: len(b) for lvl, b in edb.A_dict.items()} if scheme == "DP17.Pi" else {}
            res = (c06.slot_map(scheme, L, sch, cobj, key, edb, db), levels)
        else:
            raise ValueError(kind)
    with open(out_path, "wb") as f:
        pickle.dump(res, f)
    sys.stdout.flush()
    os._exit(0)


def run_pair(task, scratch, timeout=180):
    """Run the task in two twins at the same time. Returns [resultA, resultB]; an entry is None if that twin failed or
    the watchdog fired (inconclusive for the caller, never a verdict)."""
    d = tempfile.mkdtemp(prefix="twin_", dir=scratch)
    tp = os.path.join(d, "task.pickle")
    with open(tp, "wb") as f:
        pickle.dump(task, f)
    env = dict(os.environ, PYTHONHASHSEED="7")
    here = os.path.dirname(os.path.dirname(os.path.abspath(__file__)))
    env["PYTHONPATH"] = here + os.pathsep + env.get("PYTHONPATH", "")
    procs = []
    for name, frac in (("a", 0.137), ("b", 0.642)):
        out = os.path.join(d, name + ".pickle")
        procs.append((out, subprocess.Popen([sys.executable, "-B", "-m", "vlib.twin", tp, out, str(frac)], env=env, cwd=d,
                                            stdout=subprocess.DEVNULL, stderr=subprocess.PIPE)))
    res = []
    for out, p in procs:
        try:
            _, err = p.communicate(timeout=timeout)
        except subprocess.TimeoutExpired:
            p.kill()
            p.communicate()
            res.append(None)
            continue
        if p.returncode != 0 or not os.path.exists(out):
            res.append(None)
            sys.stderr.write("twin failed: " + (err or b"").decode(errors="replace")[-400:] + "\n")
            continue
        with open(out, "rb") as f:
            res.append(pickle.load(f))
    import shutil
    shutil.rmtree(d, ignore_errors=True)
    return res


if __name__ == "__main__":
    main()
