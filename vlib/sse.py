"""Helpers shared by the scheme-level property modules (C01-C08): case iteration, running the real scheme,
comparing results with the plaintext database, mechanism signatures."""
import copy

from vlib import gen
from vlib.common import exc_site, fp


def loader(scheme):
    import schemes
    return schemes.load_sse_module(scheme)


def result_matches(scheme, got, want):
    if scheme in gen.SET_RESULT:
        try:
            return set(got) == set(want) and len(got) == len(set(want))
        except TypeError:
            return False
    return isinstance(got, list) and got == list(want)


def diff_kind(scheme, got, want):
    try:
        g, w = list(got), list(want)
    except TypeError:
        return "not-a-collection"
    if set(g) == set(w):
        return "order-or-multiplicity"
    if set(g) < set(w):
        return "missing"
    if set(g) > set(w):
        return "extra"
    if len(g) == len(w):
        return "altered"
    return "missing-and-extra"


def scheme_shards(tier, per_scheme_quick=2, per_scheme_thorough=4, budget_quick=30, budget_thorough=400,
                  schemes=None, extra=None):
    specs = []
    k = per_scheme_quick if tier == "quick" else per_scheme_thorough
    for s in (schemes or gen.SCHEMES):
        for j in range(k):
            sp = {"name": f"{gen.SHORT[s]}-{j}", "scheme": s, "index": j, "of": k,
                  "budget_s": budget_quick if tier == "quick" else budget_thorough}
            if extra:
                sp.update(extra)
            specs.append(sp)
    return specs


def iter_cases(spec, ctx, scales=None, classes=None, max_configs=10 ** 9, rare_classes=()):
    """Yield (cid, cfg, cls, db, info) for the shard: configurations j, j+J, ...; every database class for each."""
    scheme = spec["scheme"]
    rng = ctx.rng
    tier = ctx.tier
    scales = scales or ([6, 16, 40] if tier == "quick" else [6, 16, 40, 100, 260])
    i = spec["index"]
    n = 0
    while not ctx.out_of_time() and n < max_configs:
        cid, cfg0 = gen.pick_config(scheme, rng, i)
        i += spec["of"]
        n += 1
        for cls in (classes or gen.DB_CLASSES):
            if ctx.out_of_time():
                return
            if cls in rare_classes and rng.random() > 0.2:
                continue
            cfg = copy.deepcopy(cfg0)
            scale = rng.choice(scales)
            if scheme in ("CGKO06.SSE1", "CGKO06.SSE2"):
                scale = min(scale, 40 if scheme.endswith("SSE1") else 24)
            try:
                db, info = gen.make_db(rng, scheme, cfg, cls, scale)
            except ValueError:
                continue
            yield cid, cfg, cls, db, info


def db_tags(db):
    """Input predicates used in messages (not in signatures)."""
    import math
    N = sum(len(v) for v in db.values())
    t = math.ceil(math.log2(N)) if N > 0 else 0
    tags = []
    if N == 1:
        tags.append("N=1")
    if N == 2 ** t:
        tags.append("N=2^t")
    if any(len(v) == 2 ** t for v in db.values()):
        tags.append("list=2^t")
    return tags


class Setup:
    """Runs Config -> Scheme -> KeyGen -> EDBSetup on the real classes; records the phase of any exception."""

    def __init__(self, scheme, cfg, db, sse_obj=None, key=None):
        """sse_obj: an existing scheme object built from an identical configuration (object reuse across databases
        and keys: the result must not depend on what the object was used for before)."""
        self.scheme_name, self.cfg, self.db = scheme, cfg, db
        self.L = loader(scheme)
        self.error = None
        self.phase = "config"
        try:
            self.sse = sse_obj if sse_obj is not None else self.L.SSEScheme(cfg)
            self.phase = "keygen"
            self.key = key if key is not None else self.sse.KeyGen()
            self.phase = "edbsetup"
            self.edb = self.sse.EDBSetup(self.key, db)
            self.phase = "ready"
        except Exception as e:  # noqa
            self.error = e

    def search(self, w):
        tk = self.sse.TokenGen(self.key, w)
        return self.sse.Search(self.edb, tk).get_result_list()


def list_sharing(db):
    """Groups of keywords whose posting lists are ONE list object (lost by the JSON form of a replay file)."""
    groups = {}
    for k, v in db.items():
        groups.setdefault(id(v), []).append(k)
    return [g for g in groups.values() if len(g) > 1]


def restore_list_sharing(case):
    """Replay: make the keywords recorded in case['list_sharing'] share one list object again."""
    db = case.get("db")
    if isinstance(db, dict):
        for g in case.get("list_sharing") or []:
            g = [k for k in g if k in db]
            for k in g[1:]:
                db[k] = db[g[0]]
    return case


def case_desc(scheme, cid, cfg, cls, db, extra=None):
    d = {"scheme": scheme, "cfg_id": cid, "cfg": cfg, "db_class": cls, "db": db}
    sh = list_sharing(db) if isinstance(db, dict) else []
    if sh:
        d["list_sharing"] = sh
    if extra:
        d.update(extra)
    return d


def setup_signature(scheme, st):
    return f"{gen.SHORT[scheme]}:{st.phase}-raised:{exc_site(st.error)}"


def case_fp(scheme, cid, db):
    return fp(scheme, cid, gen.db_fingerprint(db))
