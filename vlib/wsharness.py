"""Loopback websocket harness for the frontend properties (C09-C13).

The real server handler (frontend.server.connector.handler) is served in-process on 127.0.0.1:<ephemeral port>;
the real client (frontend.client.services.service.Service) is pointed at it through ClientConfig.SERVER_URI.
HOME has already been redirected by the worker, so ~/.sse lives in the worker's scratch directory.
The 1 s cleanup delay of the server is virtualised by giving frontend.server.services.services_manager its own
`asyncio` name (a proxy that forwards everything but `sleep`), without touching the global event loop.
"""
import asyncio
import logging
import os
import pickle

import websockets

_env = {}


class AsyncioProxy:
    """Stands in for the name `asyncio` inside services_manager only."""

    def __init__(self):
        self.gate = None          # None: sleep(d) -> sleep(0); otherwise an object with async wait(delay)
        self.sleeps = 0

    def __getattr__(self, name):
        return getattr(asyncio, name)

    async def sleep(self, delay, *a, **k):
        if not delay or delay <= 0:
            # a bare yield (`sleep(0)`) is not the cleanup delay: pass it through untouched, otherwise the gate
            # would hold back a waiting connection and manufacture an overtaking the real server cannot produce
            await asyncio.sleep(0)
            return
        self.sleeps += 1
        if self.gate is not None:
            await self.gate.wait(delay)
        else:
            await asyncio.sleep(0)


class Gate:
    """Makes the server's cleanup delay a schedulable event: sleepers block until the harness releases them."""

    def __init__(self):
        self.waiters = []
        self.total = 0
        self.timed = []      # (virtual wake time, sequence number, future): releases can follow the virtual clock
        self.now = 0.0

    async def wait(self, delay):
        fut = asyncio.get_running_loop().create_future()
        self.waiters.append(fut)
        self.total += 1
        self.timed.append((self.now + float(delay), self.total, fut))
        await fut

    def release_earliest(self, before_seq=None):
        """Release the pending sleeper with the smallest virtual wake time (optionally only among those registered
        up to sequence number before_seq) and advance the virtual clock to it."""
        cand = [(w, n, f) for (w, n, f) in self.timed if not f.done() and (before_seq is None or n <= before_seq)]
        self.timed = [x for x in self.timed if not x[2].done()]
        if not cand:
            return False
        w, n, f = min(cand)
        self.now = max(self.now, w)
        f.set_result(None)
        return True

    def pending(self):
        return sum(1 for f in self.waiters if not f.done())

    def release_all(self):
        n = 0
        for f in self.waiters:
            if not f.done():
                f.set_result(None)
                n += 1
        self.waiters = []
        return n

    def release_one(self):
        while self.waiters:
            f = self.waiters.pop(0)
            if not f.done():
                f.set_result(None)
                return True
        return False


def setup_env(virtual_sleep=True):
    """Import the frontend (after HOME redirection), silence its loggers, install the sleep proxy."""
    if _env:
        return _env
    import global_config
    import frontend.server.connector as connector
    import frontend.server.services.services_manager as sm
    import frontend.server.services.file_manager as sfm
    import frontend.client.services.service as cservice
    import frontend.client.services.file_manager as cfm
    for n in ("sse_server", "sse_client", "websockets.server", "websockets.client", "websockets", "asyncio"):
        lg = logging.getLogger(n)
        lg.setLevel(logging.CRITICAL)
        for h in lg.handlers:
            h.setLevel(logging.CRITICAL)
    proxy = AsyncioProxy()
    if virtual_sleep:
        sm.asyncio = proxy
    import frontend.server.services.service as sservice
    import collections
    sent_log = collections.deque(maxlen=4000)   # (sequence number, sid, message type)
    sent_seq = [0]
    orig_send = sservice.send_message

    def recording_send(websocket, sid, msg_type, content, **additional_field):
        sent_seq[0] += 1
        sent_log.append((sent_seq[0], sid, msg_type))
        return orig_send(websocket, sid, msg_type, content, **additional_field)
    _env["sent_seq"] = sent_seq
    sservice.send_message = recording_send
    _env["sent_log"] = sent_log
    _env.update(global_config=global_config, connector=connector, sm=sm, sfm=sfm, cservice=cservice, cfm=cfm,
                proxy=proxy)
    return _env


SERVE_KWARGS = []      # keyword arguments the repository's run_server passed to websockets.serve (evidence)


class Server:
    """In-process server; restart() drops every in-memory object of the server side (new ServicesManager)."""

    def __init__(self):
        self.env = setup_env()
        self.server = None
        self.port = None

    async def start(self):
        """The server is started by the repository's own connector.run_server (so the listening parameters it passes
        to websockets.serve - message size limit, queue sizes, keep-alive - are the ones under test); a proxy for the
        name `websockets` inside that module only captures the server object and the keyword arguments."""
        connector = self.env["connector"]
        owner = self
        ready = asyncio.Event()

        class _Capture:
            def __init__(self, real):
                self.real = real

            async def __aenter__(self):
                srv = await self.real.__aenter__()
                owner.server = srv
                ready.set()
                return srv

            async def __aexit__(self, *a):
                return await self.real.__aexit__(*a)

            def __await__(self):
                async def go():
                    srv = await self.real
                    owner.server = srv
                    ready.set()
                    return srv
                return go().__await__()

        class _WSProxy:
            def __getattr__(self, name):
                return getattr(websockets, name)

            def serve(self, *a, **kw):
                SERVE_KWARGS.append(dict(sorted((k, repr(v)) for k, v in kw.items())))
                return _Capture(websockets.serve(*a, **kw))

        connector.websockets = _WSProxy()
        self.task = asyncio.ensure_future(connector.run_server("127.0.0.1", 0))
        try:
            await asyncio.wait_for(ready.wait(), 10)
        except asyncio.TimeoutError:
            self.task.cancel()
            raise RuntimeError("connector.run_server did not start listening within 10 s")
        self.port = self.server.sockets[0].getsockname()[1]
        self.env["global_config"].ClientConfig.SERVER_URI = self.uri
        return self

    @property
    def uri(self):
        return f"ws://127.0.0.1:{self.port}"

    async def stop(self):
        if self.server is not None:
            self.server.close()
            try:
                await asyncio.wait_for(self.server.wait_closed(), 5)
            except asyncio.TimeoutError:
                pass
            self.server = None
        task = getattr(self, "task", None)
        if task is not None:
            task.cancel()
            try:
                await asyncio.wait_for(asyncio.gather(task, return_exceptions=True), 5)
            except (asyncio.TimeoutError, asyncio.CancelledError):
                pass
            self.task = None

    async def restart(self):
        await self.stop()
        self.env["connector"]._sse_service_manager = self.env["sm"].ServicesManager()
        await self.start()

    def server_dir(self, sid):
        return os.path.join(os.environ["HOME"], ".sse", sid)


class Timeout(Exception):
    pass


class RawConn:
    """A raw protocol client: pickled dict messages, exactly what the real client sends."""

    def __init__(self, uri, sid):
        self.uri, self.sid = uri, sid
        self.ws = None
        self.init_state = None
        self.controls = 0
        self.closed_code = None

    async def open(self, timeout=5):
        self.ws = await asyncio.wait_for(websockets.connect(self.uri, max_size=None), timeout)
        await self.ws.send(pickle.dumps({"type": "init", "sid": self.sid}))
        ev = await self.next_event(timeout)
        if ev[0] != "msg" or ev[1].get("type") != "init":
            self.init_state = ("no-init-echo", ev)
            return self
        try:
            content = pickle.loads(ev[1]["content"])
            self.init_state = content.get("state") if content.get("ok") else ("init-not-ok", content)
        except Exception as e:  # noqa
            self.init_state = ("bad-init-echo", repr(e))
        return self

    async def send(self, msg_type, content, sid=None, **extra):
        d = {"type": msg_type, "sid": self.sid if sid is None else sid, "content": content}
        d.update(extra)
        await self.ws.send(pickle.dumps(d))

    async def next_event(self, timeout=5):
        """('msg', dict) | ('closed', code) ; CONTROL messages are counted and skipped. Raises Timeout."""
        while True:
            try:
                raw = await asyncio.wait_for(self.ws.recv(), timeout)
            except asyncio.TimeoutError:
                raise Timeout()
            except websockets.ConnectionClosed as e:
                self.closed_code = e.code if hasattr(e, "code") else (e.rcvd.code if e.rcvd else 1006)
                return ("closed", self.closed_code)
            d = pickle.loads(raw)
            if d.get("type") == "control":
                self.controls += 1
                continue
            return ("msg", d)

    async def close(self):
        if self.ws is not None:
            try:
                await asyncio.wait_for(self.ws.close(), 3)
            except Exception:
                pass

    @property
    def is_open(self):
        return self.ws is not None and self.ws.open


def decode_reply(d):
    """Map a server message to ('ok'|'refused'|'result'|'other', payload)."""
    t = d.get("type")
    content = d.get("content")
    if t in ("config", "upload_edb"):
        try:
            c = pickle.loads(content)
            return (t, "ok" if c.get("ok") else "refused", c)
        except Exception:
            return (t, "garbled", None)
    if t == "result":
        try:
            c = pickle.loads(content)
        except Exception:
            return (t, "garbled", None)
        if isinstance(c, dict) and c.get("ok") is False:
            return (t, "refused", c)
        return (t, "result", c)
    return (t, "other", content)


async def settle(rounds=6):
    for _ in range(rounds):
        await asyncio.sleep(0)


class WarpLoop(asyncio.SelectorEventLoop):
    """An event loop whose clock the harness can push forward: `loop.warp(seconds)` makes every timer that would have
    fired within that real time fire now (timeouts, periodic notices, keep-alive pings), without waiting for it.
    Nothing else changes, so it produces exactly the behaviour of a schedule with that much idle time in it."""

    def __init__(self):
        super().__init__()
        self.offset = 0.0
        self.warped = 0.0

    def time(self):
        return super().time() + self.offset

    def warp(self, seconds):
        self.offset += seconds
        self.warped += seconds


def run_warped(coro_fn):
    """asyncio.run() on a WarpLoop."""
    loop = WarpLoop()
    asyncio.set_event_loop(loop)
    try:
        return loop.run_until_complete(coro_fn())
    finally:
        try:
            pending = [t for t in asyncio.all_tasks(loop) if not t.done()]
            for t in pending:
                t.cancel()
            if pending:
                loop.run_until_complete(asyncio.gather(*pending, return_exceptions=True))
            loop.run_until_complete(loop.shutdown_asyncgens())
        finally:
            asyncio.set_event_loop(None)
            loop.close()


# --------------------------------------------------------------------------------------------- wire conservation
class WireMonitor:
    """Conservation at the websocket boundary: every message a protocol object hands to send() is logged with its
    length and digest, and so is every message recv() returns (class-attribute wrapping of websockets' common protocol,
    so the real client, the raw client and the server's connections are all covered).  `missing()` lists messages that
    were sent by one side and not received, byte for byte, by the other."""

    def __init__(self):
        import hashlib
        import websockets.legacy.protocol as proto
        self.sent, self.received = [], []
        self.fragmented = 0
        P = proto.WebSocketCommonProtocol
        self._P, self._orig_send, self._orig_recv = P, P.send, P.recv
        mon = self

        async def send(self, message):
            if isinstance(message, (bytes, bytearray, memoryview, str)):
                b = message.encode() if isinstance(message, str) else bytes(message)
                mon.sent.append((self.is_client, len(b), hashlib.blake2b(b, digest_size=12).digest()))
            elif hasattr(message, "__iter__"):
                # a fragmented message: what the caller hands over, piece by piece, is one message on the other side
                message = list(message)
                b = b"".join(x.encode() if isinstance(x, str) else bytes(x) for x in message)
                mon.sent.append((self.is_client, len(b), hashlib.blake2b(b, digest_size=12).digest()))
                mon.fragmented += 1
            return await mon._orig_send(self, message)

        async def recv(self):
            m = await mon._orig_recv(self)
            b = m.encode() if isinstance(m, str) else bytes(m)
            mon.received.append((self.is_client, len(b), hashlib.blake2b(b, digest_size=12).digest()))
            return m
        P.send, P.recv = send, recv

    def uninstall(self):
        self._P.send, self._P.recv = self._orig_send, self._orig_recv

    def mark(self):
        return (len(self.sent), len(self.received))

    def sent_by_client_since(self, mark):
        return [ln for (is_client, ln, _) in self.sent[mark[0]:] if is_client]

    def missing(self, mark=(0, 0)):
        """(direction, length) of messages sent since `mark` whose exact bytes the peer side did not receive"""
        import collections
        got = collections.Counter((not c, ln, dg) for (c, ln, dg) in self.received[mark[1]:])
        out = []
        for (c, ln, dg) in self.sent[mark[0]:]:
            if got[(c, ln, dg)] > 0:
                got[(c, ln, dg)] -= 1
            else:
                out.append(("client->server" if c else "server->client", ln))
        return out


async def server_keeps_a_dead_connection(env, sid):
    """Logical evidence for "this connection will never be served": after the event loop has had every chance to run the
    cleanup (the delay is virtual), the server's registry still holds, for this sid, a service whose websocket is closed.
    Returns an explanation or None (also None when the registry cannot be inspected)."""
    try:
        await settle(200)
        mgr = env["connector"]._sse_service_manager
        reg = getattr(mgr, "_service_dict", None)
        if not isinstance(reg, dict) or sid not in reg:
            return None
        ws = getattr(reg[sid], "websocket", None)
        if ws is not None and getattr(ws, "closed", False):
            await settle(200)
            if reg.get(sid) is not None and getattr(getattr(reg[sid], "websocket", None), "closed", False):
                return ("the server still has a CLOSED connection registered for this service and keeps every later "
                        "connection waiting for it")
    except Exception:
        return None
    return None
