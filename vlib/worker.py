"""Worker process: python -m vlib.worker <PROP> <spec.json> <out.json>

Redirects HOME into a private scratch directory *before* any repository module is imported (frontend.* and
toolkit.logger compute ~/.sse at import time), installs the monitors, runs one shard and writes its result.
"""
import importlib
import json
import os
import random
import shutil
import sys
import tempfile
import time
import traceback


class Ctx:
    def __init__(self, spec, scratch):
        self.spec = spec
        self.scratch = scratch
        self.seed = int(spec.get("seed", 0))
        self.tier = spec.get("tier", "quick")
        self.rng = random.Random(f"{self.seed}/{spec.get('name', '')}/{spec.get('index', 0)}")
        self.t0 = time.monotonic()
        self.budget = float(spec.get("budget_s", 1e9))

    def time_left(self):
        return self.budget - (time.monotonic() - self.t0)

    def out_of_time(self):
        return self.time_left() <= 0

    def tmpdir(self, prefix="d"):
        # under the shard's working directory, whose name is part of the varied environment (spaces, non-ASCII ...)
        return tempfile.mkdtemp(prefix=prefix, dir=os.getcwd() if os.getcwd().startswith(self.scratch) else self.scratch)


AMBIENT_NAMES = ["h", "dir with spaces", "r\u00e9pertoire-\u00fc", "x" * 90, "semi;colon&amp", "-dash", "a.b.c"]
AMBIENT_TZ = ["UTC", "Asia/Kolkata", "America/St_Johns", "Pacific/Kiritimati", "Europe/Berlin", "Australia/Lord_Howe"]


def set_ambient(spec, scratch):
    """Process environment of this shard, varied from shard to shard (reproducibly; recorded in violations and re-used
    by --replay): the names of the home and working directories (spaces, non-ASCII, long, shell characters), the umask,
    the time zone, the C-library locale and the recursion limit. All are environments the unchanged code works in; what
    the code under test must not do is depend on them."""
    rep = spec.get("replay") if isinstance(spec.get("replay"), dict) else {}
    amb = rep.get("ambient")
    if not amb:
        r = random.Random(f"ambient/{spec.get('seed', 0)}/{spec.get('name', '')}/{spec.get('index', 0)}")
        amb = {"home": r.choice(AMBIENT_NAMES), "cwd": r.choice(AMBIENT_NAMES), "umask": r.choice([0o022, 0o077, 0o002, 0o027]),
               "tz": r.choice(AMBIENT_TZ), "locale": r.choice(["C", "C.UTF-8", ""]),
               "recursionlimit": r.choice([1000, 1000, 700, 5000])}
        if os.environ.get("VERIF_AMBIENT") == "plain":
            amb = {"home": "h", "cwd": "h", "umask": 0o022, "tz": "UTC", "locale": "", "recursionlimit": 1000}
    import locale as _loc
    amb["ascii_io"] = _loc.getpreferredencoding(False).lower().replace("-", "") in ("ascii", "ansi_x3.41968", "us-ascii", "646")
    if amb["ascii_io"]:
        # file names must be encodable in the file-system encoding of this interpreter
        for k in ("home", "cwd"):
            if not amb[k].isascii():
                amb[k] = "ascii only"
    home = os.path.join(scratch, "H" + amb["home"])
    cwd = os.path.join(scratch, "W" + amb["cwd"])
    os.makedirs(home, exist_ok=True)
    os.makedirs(cwd, exist_ok=True)
    os.environ["HOME"] = home
    os.chdir(cwd)
    os.umask(amb["umask"])
    os.environ["TZ"] = amb["tz"]
    try:
        time.tzset()
    except Exception:
        pass
    try:
        import locale
        locale.setlocale(locale.LC_ALL, amb["locale"])
    except Exception:
        amb["locale"] = "(unavailable)"
    sys.setrecursionlimit(amb["recursionlimit"])
    return amb


def main():
    prop, spec_path, out_path = sys.argv[1:4]
    with open(spec_path) as f:
        spec = json.load(f)
    from vlib import common, instrument
    scratch = tempfile.mkdtemp(prefix="verif_w_", dir=common.scratch_root())
    ambient = set_ambient(spec, scratch)
    repo = os.environ.get("VERIF_REPO", "/repo")
    if repo not in sys.path:
        sys.path.insert(0, repo)
    rc = 0
    try:
        instrument.track_functions(repo)
        if spec.get("primitive_monitors", True):
            instrument.install_primitive_monitors()
        mod = importlib.import_module("props." + prop.lower())
        acc = common.Acc()
        ctx = Ctx(spec, scratch)
        if "replay" in spec:
            case = common.unjson(spec["replay"])
            if isinstance(case, dict) and case.get("list_sharing"):
                from vlib import sse
                sse.restore_list_sharing(case)
            mod.replay(case, acc, ctx)
        else:
            mod.run_shard(spec, acc, ctx)
        for k, v in instrument.insitu_counts.items():
            acc.count("insitu." + k, v)
        owned = tuple(getattr(mod, "INSITU_OWNED", ()))
        for v in instrument.insitu_violations:
            # a primitive-level contract violation is a verdict only for the property that owns that contract;
            # elsewhere it is recorded (the property under check may well hold on such a tree)
            if owned and v["signature"].startswith(owned):
                acc.violation(v["signature"], v["message"], v["case"])
            else:
                acc.count("insitu_violations_seen_but_not_owned")
                acc.note(f"in-situ contract {v['signature']} fired during this workload: {v['message'][:120]}")
        res = acc.to_json()
        for v in res.get("violations", []):
            if isinstance(v.get("case"), dict):
                v["case"].setdefault("pythonhashseed", int(os.environ.get("PYTHONHASHSEED", "0") or 0))
                v["case"].setdefault("ambient", ambient)
                if sys.flags.optimize:
                    v["case"].setdefault("python_O", True)
        if sys.flags.optimize:
            res["counters"]["shards_run_under_python_O"] = res["counters"].get("shards_run_under_python_O", 0) + 1
        res["sets"]["functions_entered"] = instrument.functions_entered()
        res["sets"]["ambient_environments"] = [json.dumps(ambient, sort_keys=True)]
        wsh = sys.modules.get("vlib.wsharness")
        if wsh is not None and getattr(wsh, "SERVE_KWARGS", None):
            res["counters"]["servers_started_through_connector.run_server"] = len(wsh.SERVE_KWARGS)
            res["sets"]["listen_kwargs_passed_by_run_server"] = sorted({json.dumps(k, sort_keys=True)
                                                                        for k in wsh.SERVE_KWARGS})
        with open(out_path, "w") as f:
            json.dump(res, f)
    except BaseException:
        traceback.print_exc()
        rc = 3
    finally:
        os.chdir("/")
        shutil.rmtree(scratch, ignore_errors=True)
    sys.stdout.flush()
    os._exit(rc)


if __name__ == "__main__":
    main()
