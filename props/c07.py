"""C07 - setup and search leave their inputs intact; searches repeat in any order.

Monitor shape: before/after snapshots + history checker. Deep copies of the database, of the configuration dict
(and of the scheme's module-level DEFAULT_CONFIG) and the key bytes are taken before construction/EDBSetup and
compared afterwards; EDB.serialize() is compared before/after a whole search history and token.serialize()
before/after each search; every result in a history of 10..60 searches (present and absent keywords, repeated, in
seeded order) must equal the single-search answer computed on a private deserialized copy of the index.
"""
import copy

from vlib import gen, sse
from vlib.common import exc_site

LEVEL = "exploration"
SHARD_TIMEOUT = {"quick": 240, "thorough": 1500}


def plan(tier, seed):
    specs = sse.scheme_shards(tier, per_scheme_quick=2, per_scheme_thorough=3, budget_quick=12, budget_thorough=220)
    # one index, one scheme object, more than 2^16 searches (whatever counts searches must not wrap or fill up)
    for sch in (["CJJ14.PiBas", "DP17.Pi", "CJJ14.Pi2Lev"] if tier == "quick" else gen.SCHEMES):
        specs.append({"name": f"marathon-{gen.SHORT[sch]}", "kind": "marathon", "scheme": sch,
                      "searches": 66000, "budget_s": 200 if tier == "quick" else 900})
    # one long-lived scheme object and key re-indexing a changing collection, each index dropped after use (whatever
    # the object remembers about an index must not outlive it)
    for sch in gen.SCHEMES:
        specs.append({"name": f"rolling-{gen.SHORT[sch]}", "kind": "rolling", "scheme": sch,
                      "rounds": 120 if tier == "quick" else 3000, "budget_s": 60 if tier == "quick" else 400})
    # object lifetime: index after index of a changing collection on one scheme object, each dropped before the next
    # is built (props/_search_engine.run_generations): every answer as if it were the only search on that index
    for j in range(3):
        specs.append({"name": f"dropped-index-generations-{j}", "kind": "generations", "schemes": gen.SCHEMES[j::3],
                      "rounds": 1 if tier == "quick" else 8, "generations": 120, "budget_s": 120})
    return specs


def run_rolling(spec, acc, ctx):
    import gc
    scheme = spec["scheme"]
    short = gen.SHORT[scheme]
    rng = ctx.rng
    cfg = gen.default_config(scheme)
    if scheme == "CGKO06.SSE1":
        cfg.update(param_s=64, param_dictionary_size=16)
    if scheme == "CGKO06.SSE2":
        cfg["param_n"] = 12
    cp = gen.caps(scheme, cfg)
    try:
        sch = sse.loader(scheme).SSEScheme(cfg)
        key = sch.KeyGen()
        pool = gen.gen_ids(rng, cp["id_size"], 12)
        words = [gen.gen_keyword(rng, min(cp["kw_limit"], 12), set(), 3) for _ in range(4)]
        words = list(dict.fromkeys(words))
    except Exception as e:
        acc.note(f"{short}: rolling setup failed {exc_site(e)}")
        return
    acc.count("cases")
    acc.count("cases." + short)
    acc.count("histories")
    acc.count("histories." + short)
    for rnd in range(spec["rounds"]):
        if ctx.out_of_time():
            break
        db = {w: rng.sample(pool, rng.randint(1, 4)) for w in words if rng.random() < 0.85} or {words[0]: pool[:2]}
        try:
            edb = sch.EDBSetup(key, copy.deepcopy(db))
            for w in words:
                got = norm(scheme, sch.Search(edb, sch.TokenGen(key, w)).get_result_list())
                want = norm(scheme, db.get(w, []))
                acc.count("history_searches")
                acc.count("rolling_searches")
                if got != want:
                    acc.violation(f"{short}:history-result-differs",
                                  f"version {rnd} of a collection re-indexed by one scheme object under one key (earlier "
                                  f"indexes dropped): a search returns {len(got)} ids, this version holds {len(want)}",
                                  sse.case_desc(scheme, "default", cfg, "rolling", db, {"round": rnd}))
                    return
        except Exception as e:
            acc.violation(f"{short}:history-search-raised:{exc_site(e)}", f"rolling re-index round {rnd}: "
                                                                          f"{type(e).__name__}: {e}", {"scheme": scheme})
            return
        del edb
        if rnd % 7 == 0:
            gc.collect()
    acc.add("distinct", sse.case_fp(scheme, "rolling", {b"r": [bytes([1])]}))
    acc.add("rolling_schemes", scheme)


def run_marathon(spec, acc, ctx):
    scheme = spec["scheme"]
    short = gen.SHORT[scheme]
    rng = ctx.rng
    cfg = gen.default_config(scheme)
    if scheme == "CGKO06.SSE1":
        cfg.update(param_s=256, param_dictionary_size=64)
    lens = [1] * 30 + [2, 3, 2, 1, 4]
    try:
        db, info = gen.db_from_lens(rng, scheme, cfg, lens, "marathon")
        L = sse.loader(scheme)
        sch = L.SSEScheme(cfg)
        key = sch.KeyGen()
        edb = sch.EDBSetup(key, copy.deepcopy(db))
        edb_bytes = edb.serialize()
        words = list(db) + [w for w, _ in gen.absent_keywords(rng, db, gen.caps(scheme, cfg)["kw_limit"], 3, 3)]
        tokens = {w: sch.TokenGen(key, w) for w in words}
        # single-search answers from FRESH scheme objects (nothing remembered from other searches)
        base = {w: norm(scheme, L.SSEScheme(copy.deepcopy(cfg)).Search(
            L.SSEEncryptedDatabase.deserialize(edb_bytes, L.SSEConfig(copy.deepcopy(cfg))),
            tokens[w]).get_result_list()) for w in words}
    except Exception as e:
        acc.note(f"{short}: marathon setup failed {exc_site(e)}")
        acc.count("setup_failed")
        return
    acc.count("cases")
    acc.count("cases." + short)
    acc.count("histories")
    acc.count("histories." + short)
    case = sse.case_desc(scheme, "default", cfg, "marathon", db)
    n = 0
    for n in range(1, spec["searches"] + 1):
        if n % 512 == 0 and ctx.out_of_time():
            break
        w = words[(n * 7 + n // 41) % len(words)]
        try:
            got = norm(scheme, sch.Search(edb, tokens[w] if n % 3 else sch.TokenGen(key, w)).get_result_list())
        except Exception as e:
            acc.violation(f"{short}:history-search-raised:{exc_site(e)}", f"search #{n} on one index raised "
                                                                          f"{type(e).__name__}: {e}", dict(case, searches=n))
            return
        if got != base[w]:
            acc.violation(f"{short}:history-result-differs", f"search #{n} on one index returned {len(got)} ids, the "
                                                             f"single-search answer has {len(base[w])}", dict(case, searches=n))
            return
    acc.count("marathon_searches", n)
    acc.count("history_searches", n)
    acc.count("repeated_searches", max(0, n - len(words)))
    if edb.serialize() != edb_bytes:
        acc.violation(f"{short}:edb-mutated", f"EDB.serialize() differs after {n} searches", dict(case, searches=n))
        return
    acc.add("distinct", sse.case_fp(scheme, "marathon", db))
    acc.add("marathon_schemes", scheme)


def norm(scheme, r):
    return sorted(r) if scheme in gen.SET_RESULT else list(r)


def run_case(scheme, cid, cfg, cls, db, acc, rng, use_module_default=False):
    short = gen.SHORT[scheme]
    L = sse.loader(scheme)
    import importlib
    cfgmod = importlib.import_module(L.SSEConfig.__module__)
    default_before = copy.deepcopy(cfgmod.DEFAULT_CONFIG)
    arg_cfg = cfgmod.DEFAULT_CONFIG if use_module_default else cfg
    cfg_before = copy.deepcopy(arg_cfg)
    db_before = copy.deepcopy(db)
    case = sse.case_desc(scheme, cid, cfg_before, cls, db_before)
    acc.count("cases")
    acc.count("cases." + short)
    try:
        cobj = L.SSEConfig(arg_cfg)
        acc.count("intact.config_object")
        if arg_cfg != cfg_before:
            acc.violation(f"{short}:config-dict-mutated:SSEConfig", "SSEConfig(cfg) changed the caller's dict", case)
        scheme_obj = L.SSEScheme(arg_cfg)
        key = scheme_obj.KeyGen()
        key_before = key.serialize()
        edb = scheme_obj.EDBSetup(key, db)
    except Exception as e:
        acc.count("setup_failed")
        acc.note(f"{short} setup failed: {exc_site(e)}")
        return False
    acc.count("intact.setup_checked")
    if db != db_before:
        changed = [k for k in db_before if db.get(k) != db_before[k]]
        extra = [k for k in db if k not in db_before]
        acc.violation(f"{short}:database-mutated", f"EDBSetup changed the caller's database "
                                                   f"({len(changed)} lists changed, {len(extra)} keywords added)", case)
    if arg_cfg != cfg_before:
        acc.violation(f"{short}:config-dict-mutated", "construction/EDBSetup changed the caller's configuration dict",
                      case)
    if cfgmod.DEFAULT_CONFIG != default_before:
        acc.violation(f"{short}:default-config-mutated", "the module-level DEFAULT_CONFIG changed", case)
    if key.serialize() != key_before:
        acc.violation(f"{short}:key-mutated", "EDBSetup changed the key", case)

    edb_bytes = edb.serialize()
    if edb.serialize() != edb_bytes:
        acc.note(f"{short}: EDB.serialize() is not deterministic; byte comparison skipped")
        return False
    EDB = L.SSEEncryptedDatabase
    cp = gen.caps(scheme, cfg)
    present = list(db_before)
    long_history = len(present) > 30 and rng.random() < 0.7
    if len(present) > 12 and not long_history:
        present = rng.sample(present, 12)
    elif len(present) > 120:
        present = rng.sample(present, 120)
    absent = [w for w, _ in gen.absent_keywords(rng, db_before, cp["kw_limit"], k_random=2, k_close=3)]
    words = present + absent
    # single-search baseline on a private deserialized copy
    base = {}
    tokens = {}
    for w in words:
        try:
            tk = scheme_obj.TokenGen(key, w)
            tokens[w] = tk
            # "as if it were the only search": a FRESH scheme object (nothing remembered from other searches), a private
            # deserialized index, a token rebuilt from its bytes
            lone = L.SSEScheme(copy.deepcopy(cfg_before))
            lone_cobj = L.SSEConfig(copy.deepcopy(cfg_before))
            priv = EDB.deserialize(edb_bytes, lone_cobj)
            lone_tk = L.SSEToken.deserialize(tk.serialize(), lone_cobj)
            base[w] = norm(scheme, lone.Search(priv, lone_tk).get_result_list())
        except Exception as e:
            acc.count("baseline_failed")
            acc.note(f"{short} baseline search failed: {exc_site(e)}")
            return False
    hist_len = rng.randint(10, 60)
    history = [rng.choice(words) for _ in range(hist_len)]
    if long_history:
        # many DISTINCT keywords on one scheme object and one index: a forward pass, the same pass backwards, a
        # shuffled pass and random repeats (whatever a search remembers about earlier searches gets exercised)
        acc.count("long_histories")
        fwd = list(words)
        sh = list(words)
        rng.shuffle(sh)
        history = fwd + fwd[::-1] + sh + history
    # make sure repetition exists
    history += [history[0], history[len(history) // 2]]
    acc.count("histories")
    acc.count("histories." + short)
    seen_repeat = set()
    for pos, w in enumerate(history):
        tk = tokens[w] if rng.random() < 0.7 else scheme_obj.TokenGen(key, w)
        tk_before = tk.serialize()
        try:
            raw_result = scheme_obj.Search(edb, tk).get_result_list()
            got = norm(scheme, raw_result)
            # the caller owns the answer it was handed: it extends / empties it (union queries, paging); no later answer
            # may be affected (an answer object shared between searches would be)
            try:
                if isinstance(raw_result, list):
                    raw_result.extend([b"\xee" * 8, b"\xdd" * 8])
                elif isinstance(raw_result, set):
                    raw_result.update({b"\xee" * 8, b"\xdd" * 8})
                acc.count("answers_modified_by_the_caller")
            except Exception:
                pass
        except Exception as e:
            acc.violation(f"{short}:history-search-raised:{exc_site(e)}",
                          f"search #{pos} in a history raised {type(e).__name__}: {e} although the single search "
                          f"of that keyword succeeded", dict(case, history=history[:pos + 1]))
            return True
        acc.count("history_searches")
        if w in seen_repeat:
            acc.count("repeated_searches")
        seen_repeat.add(w)
        if got != base[w]:
            acc.violation(f"{short}:history-result-differs",
                          f"search #{pos} returned {len(got)} ids, the single-search answer has {len(base[w])} "
                          f"({'present' if w in db_before else 'absent'} keyword)",
                          dict(case, history=history[:pos + 1]))
            return True
        if tk.serialize() != tk_before:
            acc.violation(f"{short}:token-mutated", "Search changed the token", dict(case, keyword=w))
            return True
    acc.count("intact.edb_checked")
    if edb.serialize() != edb_bytes:
        acc.violation(f"{short}:edb-mutated", f"EDB.serialize() differs after a history of {len(history)} searches",
                      dict(case, history=history))
    if key.serialize() != key_before:
        acc.violation(f"{short}:key-mutated-by-search", "the key changed during the history", case)
    if db != db_before:
        acc.violation(f"{short}:database-mutated-by-search", "the caller's database changed during the history", case)
    return True


def run_shard(spec, acc, ctx):
    if spec.get("kind") == "generations":
        from props import _search_engine as eng
        eng.run_generations(spec, acc, ctx, "both", sig_prefix="history:")
        acc.count("cases", acc.counters.get("generations.indexes", 0))
        acc.count("histories", acc.counters.get("generations.indexes", 0))
        return
    if spec.get("kind") == "marathon":
        run_marathon(spec, acc, ctx)
        return
    if spec.get("kind") == "rolling":
        run_rolling(spec, acc, ctx)
        return
    gen.MIXED_ID_SIZES = True
    scheme = spec["scheme"]
    short = gen.SHORT[scheme]
    first = True
    rng = ctx.rng
    n_case = 0
    for cid, cfg, cls, db, info in sse.iter_cases(spec, ctx, scales=[6, 16, 40]):
        n_case += 1
        if n_case % (6 if scheme != "CGKO06.SSE2" else 40) == 0:
            # a database with many keywords (as many as the capacities allow, up to 100) and short lists
            cp = gen.caps(scheme, cfg)
            nk = min(rng.randint(40, 100) if scheme != "CGKO06.SSE2" else 36, cp["max_keywords"],
                     cp["max_total"] // 2 if cp["max_total"] < 200 else 100)
            if nk > 32:
                try:
                    lens = [min(rng.randint(1, 3), cp["max_list"]) for _ in range(nk)]
                    while sum(lens) > cp["max_total"]:
                        lens[lens.index(max(lens))] -= 1
                    if min(lens) >= 1:
                        db, info = gen.db_from_lens(ctx.rng, scheme, cfg, lens, "many-keywords")
                        cls = "many-keywords"
                except ValueError:
                    pass
        use_default = (cid == "default" and scheme != "CGKO06.SSE2")
        if use_default:
            acc.count("module_default_passed")
        ok = run_case(scheme, cid, cfg, cls, db, acc, ctx.rng, use_module_default=use_default)
        if ok:
            acc.add("distinct", sse.case_fp(scheme, cid, db))
        if first:
            acc.sample({"scheme": scheme, "cfg_id": cid, "db_class": cls, "N": info["N"]})
            first = False


def replay(case, acc, ctx):
    if case.get("generations") or case.get("interrupted"):
        # these witnesses are whole workloads on one long-lived object: run the workload again for that scheme
        from props import _search_engine as eng
        spec_ = {"schemes": [case["scheme"]], "rounds": 3, "generations": 80}
        if case.get("generations"):
            eng.run_generations(spec_, acc, ctx, "both", sig_prefix="history:")
        else:
            eng.run_interrupted(spec_, acc, ctx, "both", sig_prefix="history:")
        acc.count("replayed")
        return
    run_case(case["scheme"], case.get("cfg_id", "replay"), case["cfg"], case.get("db_class", "?"), case["db"], acc,
             ctx.rng)
    acc.count("replayed")


def finish(m, tier, seed):
    c = m["counters"]
    inc = []
    per = {}
    for s in gen.SCHEMES:
        short = gen.SHORT[s]
        per[short] = {"cases": c.get("cases." + short, 0), "histories": c.get("histories." + short, 0)}
        if per[short]["histories"] < 20:
            inc.append(f"{short}: only {per[short]['histories']} histories")
    if c.get("setup_failed", 0) + c.get("baseline_failed", 0) > 0.2 * max(1, c.get("cases", 0)):
        inc.append("too many setups/baselines failed")
    if c.get("marathon_searches", 0) < 66000:
        inc.append("no history of more than 2^16 searches completed")
    if c.get("long_histories", 0) < 20:
        inc.append(f"only {c.get('long_histories', 0)} long histories")
    if c.get("repeated_searches", 0) < 500:
        inc.append("too few repeated searches")
    cov = {
        "evaluations": c.get("cases", 0),
        "distinct_nontrivial": len(m["sets"].get("distinct", [])),
        "rule": "case = (scheme, configuration, database) with one seeded history of 12..62 searches over <= 12 present "
                "and 5 absent keywords; non-trivial = setup succeeded, snapshots compared and the whole history "
                "checked against single-search baselines on a private deserialized index; distinct = distinct "
                "(scheme, cfg id, database fingerprint).",
        "exhaustive": False,
        "per_scheme": per,
        "setups_snapshot_checked": c.get("intact.setup_checked", 0),
        "histories": c.get("histories", 0),
        "history_searches": c.get("history_searches", 0),
        "repeated_searches": c.get("repeated_searches", 0),
        "long_histories_over_more_than_30_distinct_keywords": c.get("long_histories", 0),
        "searches_in_histories_of_66000_on_one_index": c.get("marathon_searches", 0),
        "searches_on_rolling_re_indexes_of_one_object": c.get("rolling_searches", 0),
        "edb_byte_comparisons": c.get("intact.edb_checked", 0),
        "module_default_config_passed_by_reference": c.get("module_default_passed", 0),
        "setup_failed": c.get("setup_failed", 0),
    }
    return {"coverage": cov, "inconclusive": inc,
            "assumptions": ["pickle serialisation of an unchanged index is byte-stable (checked: serialize() twice)",
                            "results are compared as lists (sorted for DP17's set results)"]}
