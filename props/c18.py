"""C18 - bit strings behave like fixed-width big-endian bit vectors.

Monitor shape: every public operation of toolkit.bits.Bitset (and the halving helpers) is executed on the real
class and compared with an MSB-first list-of-bits reference model written here. Exhaustive for small widths,
random + boundary values up to 300 bits, and a sweep of the no-length constructor over 2^k-1, 2^k, 2^k+1.
"""
from vlib.common import fp, exc_site

LEVEL = "exploration"
INSITU_OWNED = ("insitu:bitset",)
SHARD_TIMEOUT = {"quick": 200, "thorough": 1200}


# ----------------------------------------------------------------------------- reference model (list of bools)
def m_bits(value, length):
    return [bool((value >> (length - 1 - i)) & 1) for i in range(length)]


def m_val(bits):
    v = 0
    for b in bits:
        v = (v << 1) | int(b)
    return v


def m_ext(bits, n):  # zero-extend on the left to n bits
    return [False] * (n - len(bits)) + list(bits)


def m_binop(op, a, b):
    n = max(len(a), len(b))
    a, b = m_ext(a, n), m_ext(b, n)
    if op == "and":
        return [x and y for x, y in zip(a, b)]
    if op == "or":
        return [x or y for x, y in zip(a, b)]
    return [x != y for x, y in zip(a, b)]


def m_shl(a, k):
    n = len(a)
    return (list(a) + [False] * k)[-n:] if n else []


def m_shr(a, k):
    n = len(a)
    return ([False] * k + list(a))[:n]


# ----------------------------------------------------------------------------- plan
def plan(tier, seed):
    specs = []
    pair_max = 6 if tier == "quick" else 8
    for n in range(0, pair_max + 1):
        specs.append({"name": f"exh-len{n}", "kind": "exhaustive", "len_a": n, "pair_max": pair_max,
                      "unary_max": 8})
    if tier == "quick":
        specs.append({"name": "exh-unary-7-8", "kind": "unary_only", "lens": [7, 8]})
    nrand = 8 if tier == "quick" else 15
    per = 4000 if tier == "quick" else 300000
    for i in range(nrand):
        specs.append({"name": f"rand{i}", "kind": "random", "index": i, "cases": per,
                      "budget_s": 60 if tier == "quick" else 420})
    specs.append({"name": "ctor-sweep", "kind": "ctor_sweep"})
    if tier == "thorough":
        specs.append({"name": "repo-tests", "kind": "repo_tests", "primitive_monitors": False})
    return specs


# ----------------------------------------------------------------------------- comparison helpers
class Mon:
    def __init__(self, acc):
        self.acc = acc

    def same(self, op, got, want_bits, case):
        """got: Bitset; want_bits: model."""
        self.acc.count("cmp." + op)
        ok = (got.value == m_val(want_bits) and len(got) == len(want_bits))
        if not ok:
            self.acc.violation(self._sig(op, case), f"{op}: got (value={got.value}, len={len(got)}) "
                               f"model (value={m_val(want_bits)}, len={len(want_bits)})", dict(case, op=op))
        return ok

    def eq(self, op, got, want, case):
        self.acc.count("cmp." + op)
        if got != want:
            self.acc.violation(self._sig(op, case), f"{op}: got {got!r:.120} model {want!r:.120}", dict(case, op=op))
            return False
        return True

    def raises(self, op, fn, case, exc=ValueError):
        self.acc.count("refuse." + op)
        try:
            r = fn()
        except exc:
            return True
        except Exception as e:  # wrong exception type is still loud; the property only says "refused"
            self.acc.count("refuse_other_exc." + op)
            return True
        self.acc.violation(self._sig(op + ":not-refused", case), f"{op}: accepted, returned {r!r:.80}",
                           dict(case, op=op))
        return False

    @staticmethod
    def _sig(op, case):
        wide = "wide" if max(case.get("la", 0), case.get("lb", 0)) > 52 else "narrow"
        return f"bitset:{op}:{wide}"


def check_derived(mon, r, model, case, tag):
    """Operations applied to an operator RESULT (not a freshly constructed Bitset): a result object must behave
    exactly like a fresh Bitset of the same value and length."""
    n = len(model)
    c2 = dict(case, derived_from=tag)
    mon.eq("derived.int-str-bytes", (int(r), str(r), bytes(r)),
           (m_val(model), "".join("1" if b else "0" for b in model), m_val(model).to_bytes((n + 7) // 8, "big")), c2)
    mon.same("derived.invert", ~r, [not b for b in model], c2)
    for k in sorted({0, min(1, n), n // 2, n}):
        mon.same("derived.shl", r << k, m_shl(model, k), dict(c2, k=k))
        mon.same("derived.shr", r >> k, m_shr(model, k), dict(c2, k=k))
        mon.same("derived.lower", r.get_lower_bits(k), model[n - k:] if k else [], dict(c2, k=k))
        mon.same("derived.higher", r.get_higher_bits(k), model[:k], dict(c2, k=k))
    mon.same("derived.and-self", r & r, model, c2)
    mon.same("derived.xor-invert", r ^ (~r), [True] * n, c2)
    mon.same("derived.concat", r + r, model + model, c2)
    mon.eq("derived.iter", list(r), model, c2)


def check_unary(Bitset, bu, mon, v, n, acc, full=True):
    try:
        _check_unary(Bitset, bu, mon, v, n, acc, full)
    except Exception as e:  # an operation inside the property's domain raised: that is a refutation, not a crash
        acc.violation("bitset:raised:" + exc_site(e), f"unary operations on ({v},{n}) raised {type(e).__name__}: {e}",
                      {"a": v, "la": n})


def _check_unary(Bitset, bu, mon, v, n, acc, full=True):
    case = {"a": v, "la": n}
    model = m_bits(v, n)
    a = Bitset(v, n) if n else Bitset(v, 0)
    mon.eq("ctor-int", (a.value, len(a)), (v, n), case)
    acc.add("lengths", n)
    # from bytes with explicit length
    if n:
        raw = v.to_bytes((n + 7) // 8, "big")
        ab = Bitset(raw, n)
        mon.eq("ctor-bytes", (ab.value, len(ab)), (v, n), case)
        mon.eq("bytes", bytes(a), raw, case)
        # the byte string may carry redundant leading zero bytes, or be shorter than ceil(n/8) when the value is small:
        # value, length and every conversion are those of the (value, length) pair, not of the spelling
        for spelling, tag in ((b"\x00" * (1 + (v + n) % 3) + raw, "padded"),
                              (v.to_bytes((v.bit_length() + 7) // 8, "big"), "minimal")):
            if spelling != raw:
                az = Bitset(spelling, n)
                mon.eq("ctor-bytes-" + tag, (az.value, len(az), bytes(az), int(az), str(az)),
                       (v, n, raw, v, "".join("1" if b else "0" for b in model)), case)
                mon.eq("ctor-bytes-" + tag + ".eq", az == a and not (az != a), True, case)
        # too wide for a shorter length is refused
        if v.bit_length() > 1:
            mon.raises("ctor-too-wide", lambda: Bitset(v, v.bit_length() - 1), case)
    else:
        mon.eq("bytes", bytes(a), b"", case)
    mon.eq("int", int(a), v, case)
    mon.eq("str", str(a), "".join("1" if b else "0" for b in model), case)
    mon.eq("iter", list(a), model, case)
    # two iterations over the same object at once, and an operand used twice in one operation
    mon.eq("iter-overlapping", list(zip(a, a)), list(zip(model, model)), case)
    if n <= 12:
        mon.eq("iter-nested", [(p, q) for p in a for q in a], [(p, q) for p in model for q in model], case)
        i1, i2 = iter(a), iter(a)
        alt = []
        for _ in range(n):
            alt.append((next(i1), next(i2)))
        mon.eq("iter-two-handles", alt, list(zip(model, model)), case)
    mon.same("self.concat", a + a, model + model, case)
    mon.same("self.xor", a ^ a, [False] * n, case)
    mon.same("self.and", a & a, model, case)
    xs = Bitset(v, n) if n else Bitset(0, 0)
    xs += xs
    mon.same("self.iadd", xs, model + model, case)
    xs = Bitset(v, n) if n else Bitset(0, 0)
    xs ^= xs
    mon.same("self.ixor", xs, [False] * n, case)
    mon.eq("len", a.bit_length(), n, case)
    mon.same("invert", ~a, [not b for b in model], case)
    check_derived(mon, ~a, [not b for b in model], case, "invert")
    if n:
        check_derived(mon, a >> (n // 2 + 1), m_shr(model, n // 2 + 1), case, "shr")
        check_derived(mon, a << 1, m_shl(model, 1), case, "shl")
        check_derived(mon, a.get_higher_bits(n // 2), model[:n // 2], case, "higher")
    mon.eq("eq-self", a == Bitset(v, n), True, case)
    if n:
        mon.eq("eq-other-len", a == Bitset(v, n + 1), False, case)
    mon.eq("eq-int", a == v, True, case)
    mon.same("copy-ctor", Bitset(a, n), model, case)
    for i in range(n):
        if not mon.eq("index", a[i], model[i], dict(case, i=i)):
            break
    if n >= 2:
        # an index spelled as a bool is the integer 0 / 1
        mon.eq("index", a[False], model[0], dict(case, i="False"))
        mon.eq("index", a[True], model[1], dict(case, i="True"))
    ks = range(0, n + 1) if full else sorted({0, 1, n // 2, max(n - 1, 0), n})
    for k in ks:
        c2 = dict(case, k=k)
        mon.same("higher", a.get_higher_bits(k), model[:k], c2)
        mon.same("lower", a.get_lower_bits(k), model[n - k:] if k else [], c2)
    for k in (n + 1, n + 2, n + 9):
        mon.raises("higher-beyond", lambda: a.get_higher_bits(k), dict(case, k=k))
        mon.raises("lower-beyond", lambda: a.get_lower_bits(k), dict(case, k=k))
    shifts = range(0, n + 2) if full else sorted({0, 1, n // 2, n, n + 1})
    for k in shifts:
        c2 = dict(case, k=k)
        mon.same("shl", a << k, m_shl(model, k), c2)
        mon.same("shr", a >> k, m_shr(model, k), c2)
    # slices
    if full:
        grid = [None, 0, 1, 2, -1, -2, n, n + 1, -n - 1]
        steps = [None, 1, 2, 3, -1, -2]
        for st in grid:
            for sp in grid:
                for step in steps:
                    sl = slice(st, sp, step)
                    if not mon.eq("slice", a[sl], model[sl], dict(case, sl=[st, sp, step])):
                        break
    else:
        for sl in (slice(None), slice(1, None), slice(None, -1), slice(None, None, 2), slice(None, None, -1),
                   slice(n // 3, 2 * n // 3), slice(-5, None, 1)):
            mon.eq("slice", a[sl], model[sl], dict(case, sl=[sl.start, sl.stop, sl.step]))
    # halving helpers
    half = (n + 1) // 2
    arg = Bitset(v, n) if n else Bitset(0, 0)
    l, r = bu.half_bits(arg)
    # the bit string that was halved is the caller's: it is as it was, and halving it again gives the same halves
    mon.same("half.argument-intact", arg, model, case)
    l2, r2 = bu.half_bits(arg)
    mon.eq("half.twice", (int(l2), len(l2), int(r2), len(r2)), (int(l), len(l), int(r), len(r)), case)
    mon.same("half.left", l, m_ext(model[:n - half], half), case)
    mon.same("half.right", r, model[n - half:] if half else [], case)
    check_derived(mon, l, m_ext(model[:n - half], half), case, "half.left")
    arg = Bitset(v, n) if n else Bitset(0, 0)
    l, r = bu.half_bits_not_padding(arg)
    mon.same("halfnp.argument-intact", arg, model, case)
    mon.same("halfnp.left", l, model[:n - half], case)
    mon.same("halfnp.right", r, model[n - half:] if half else [], case)
    # no-length construction uses the minimal number of bits
    b = Bitset(v)
    mon.eq("ctor-nolen", (b.value, len(b)), (v, v.bit_length()), case)
    if v > 0:
        l, r = bu.half_bits(v)
        nb = v.bit_length()
        hb = (nb + 1) // 2
        mb = m_bits(v, nb)
        mon.same("half-int.left", l, m_ext(mb[:nb - hb], hb), case)
        mon.same("half-int.right", r, mb[nb - hb:], case)


def check_binary(Bitset, mon, va, na, vb, nb, acc):
    try:
        _check_binary(Bitset, mon, va, na, vb, nb, acc)
    except Exception as e:
        acc.violation("bitset:raised:" + exc_site(e), f"binary operations on ({va},{na}),({vb},{nb}) raised "
                      f"{type(e).__name__}: {e}", {"a": va, "la": na, "b": vb, "lb": nb})


def _check_binary(Bitset, mon, va, na, vb, nb, acc):
    case = {"a": va, "la": na, "b": vb, "lb": nb}
    a, b = Bitset(va, na), Bitset(vb, nb)
    ma, mb = m_bits(va, na), m_bits(vb, nb)
    cat = a + b
    mon.same("concat", cat, ma + mb, case)
    mon.same("concat-method", a.concat(b), ma + mb, case)
    mon.same("concat.higher", cat.get_higher_bits(na), ma, case)
    mon.same("concat.lower", cat.get_lower_bits(nb), mb, case)
    mon.same("and", a & b, m_binop("and", ma, mb), case)
    mon.same("or", a | b, m_binop("or", ma, mb), case)
    mon.same("xor", a ^ b, m_binop("xor", ma, mb), case)
    if max(na, nb) <= 5 or (va * 31 + vb) % 4 == 0:  # all pairs for short lengths, every fourth pair beyond
        check_derived(mon, a & b, m_binop("and", ma, mb), case, "and")
        check_derived(mon, a ^ b, m_binop("xor", ma, mb), case, "xor")
    if (va + vb) % 3 == 0:
        check_derived(mon, a | b, m_binop("or", ma, mb), case, "or")
        check_derived(mon, cat, ma + mb, case, "concat")
    mon.eq("eq", a == b, (va == vb and na == nb), case)
    mon.eq("operands-unchanged", (a.value, len(a), b.value, len(b)), (va, na, vb, nb), case)
    # augmented assignment: `x += y` means x = x + y for a value type; another name bound to the old x keeps its value
    if max(na, nb) > 4 and (va * 7 + vb) % 6:
        return
    x = Bitset(va, na)
    old = x
    x += b
    mon.same("iadd", x, ma + mb, case)
    mon.eq("iadd.alias-unchanged", (old.value, len(old), b.value, len(b)), (va, na, vb, nb), case)
    if na == nb:
        for opn, fn in (("iand", "and"), ("ior", "or"), ("ixor", "xor")):
            x = Bitset(va, na)
            old = x
            if opn == "iand":
                x &= b
            elif opn == "ior":
                x |= b
            else:
                x ^= b
            mon.same(opn, x, m_binop(fn, ma, mb), case)
            mon.eq(opn + ".alias-unchanged", (old.value, len(old)), (va, na), case)


# ----------------------------------------------------------------------------- shard
def run_shard(spec, acc, ctx):
    from toolkit.bits import Bitset
    import toolkit.bits_utils as bu
    mon = Mon(acc)
    kind = spec["kind"]
    if kind == "repo_tests":
        from vlib import repotests
        repotests.run(acc, ctx, ["test/test_bits.py", "test/test_fpe.py", "test/test_sse_schemes/test_CGKO06_SSE2.py"],
                      ["insitu:bitset"])
        return
    if kind == "exhaustive":
        na = spec["len_a"]
        for va in range(1 << na) if na else [0]:
            check_unary(Bitset, bu, mon, va, na, acc)
            acc.count("cases")
            acc.add("distinct", fp("u", va, na))
            for nb in range(0, spec["pair_max"] + 1):
                for vb in range(1 << nb) if nb else [0]:
                    check_binary(Bitset, mon, va, na, vb, nb, acc)
                    acc.count("cases")
                    acc.add("distinct", fp("b", va, na, vb, nb))
        acc.add("exhaustive_lens", na)
        acc.sample({"kind": "exhaustive", "len_a": na, "all_values": True, "all_pairs_up_to_len": spec["pair_max"]})
    elif kind == "unary_only":
        for n in spec["lens"]:
            for v in range(1 << n):
                check_unary(Bitset, bu, mon, v, n, acc)
                acc.count("cases")
                acc.add("distinct", fp("u", v, n))
            acc.add("exhaustive_unary_lens", n)
    elif kind == "random":
        rng = ctx.rng
        for i in range(spec["cases"]):
            if ctx.out_of_time():
                break
            n = rng.choice([rng.randint(9, 70), rng.randint(9, 300), rng.choice([47, 48, 49, 52, 53, 54, 63, 64, 65,
                                                                               127, 128, 129, 159, 160, 161, 255,
                                                                               256, 257, 300])])
            v = pick_value(rng, n)
            check_unary(Bitset, bu, mon, v, n, acc, full=False)
            nb = rng.choice([rng.randint(0, 70), rng.randint(0, 300), n])
            vb = pick_value(rng, nb)
            check_binary(Bitset, mon, v, n, vb, nb, acc)
            acc.count("cases", 2)
            acc.add("distinct", fp("r", v, n, vb, nb))
            if i < 2:
                acc.sample({"kind": "random", "a": [v, n], "b": [vb, nb]})
    elif kind == "ctor_sweep":
        for k in range(1, 301):
            for v in (2 ** k - 1, 2 ** k, 2 ** k + 1):
                b = Bitset(v)
                acc.count("cases")
                acc.add("distinct", fp("c", v))
                acc.add("nolen_ctor_k", k)
                mon.eq("ctor-nolen", (b.value, len(b)), (v, v.bit_length()), {"a": v, "la": v.bit_length()})
                mon.eq("bytes-nolen", bytes(b), v.to_bytes((v.bit_length() + 7) // 8, "big"),
                       {"a": v, "la": v.bit_length()})
        mon.eq("ctor-nolen", (Bitset(0).value, len(Bitset(0))), (0, 0), {"a": 0, "la": 0})
        mon.raises("ctor-float", lambda: Bitset(1.5), {"a": "1.5"})
        mon.raises("ctor-str", lambda: Bitset("101"), {"a": "'101'"})


def pick_value(rng, n):
    if n == 0:
        return 0
    c = rng.random()
    if c < 0.5:
        return rng.getrandbits(n)
    k = rng.randint(0, n)
    cand = rng.choice([0, 2 ** k - 1, 2 ** k, 2 ** k + 1, 2 ** n - 1, 2 ** (n - 1)])
    return cand if 0 <= cand < 2 ** n else rng.getrandbits(n)


def replay(case, acc, ctx):
    from toolkit.bits import Bitset
    import toolkit.bits_utils as bu
    mon = Mon(acc)
    a, la = case.get("a", 0), case.get("la", 0)
    if isinstance(a, int):
        check_unary(Bitset, bu, mon, a, la, acc)
        if "b" in case:
            check_binary(Bitset, mon, a, la, case["b"], case["lb"], acc)


def finish(m, tier, seed):
    c = m["counters"]
    ops = {k[4:]: v for k, v in c.items() if k.startswith("cmp.")}
    lens = sorted(int(x) for x in m["sets"].get("lengths", []))
    inconclusive = []
    need = ["ctor-int", "ctor-bytes", "ctor-nolen", "concat", "higher", "lower", "half.left", "halfnp.left", "and",
            "or", "xor", "invert", "shl", "shr", "index", "slice", "iter", "eq", "int", "str", "bytes"]
    for op in need:
        if ops.get(op, 0) < 200:
            inconclusive.append(f"operation {op} compared only {ops.get(op, 0)} times")
    if len(m["sets"].get("nolen_ctor_k", [])) < 300:
        inconclusive.append("no-length constructor sweep incomplete")
    if "toolkit/bits.py:Bitset.__init__" not in m["sets"].get("functions_entered", []):
        inconclusive.append("toolkit/bits.py:Bitset.__init__ never entered")
    ex = sorted(int(x) for x in m["sets"].get("exhaustive_lens", []))
    cov = {
        "evaluations": c.get("cases", 0),
        "distinct_nontrivial": len(m["sets"].get("distinct", [])),
        "rule": "case = (value,length) for unary ops or a pair of them for binary ops; every case compares the real "
                "Bitset with the list-of-bits model on all operations, so every case is non-trivial; distinct = "
                "distinct (value,length[,value,length]). Exhaustive: all values and all ordered pairs for lengths "
                f"<= {max(ex) if ex else 0}; unary also 7..8; beyond: random/boundary values to 300 bits and the "
                "2^k-1,2^k,2^k+1 sweep of the no-length constructor for k=1..300.",
        "exhaustive": False,
        "exhaustive_pair_lengths": ex,
        "operations_compared": ops,
        "refusals_checked": {k[7:]: v for k, v in c.items() if k.startswith("refuse.")},
        "lengths_covered": [min(lens), max(lens), len(lens)] if lens else [],
        "insitu_contract_evaluations": {k: v for k, v in c.items() if k.startswith("insitu.")},
        "repository_tests_under_monitors": {k: v for k, v in c.items() if k.startswith("repo_tests.")},
    }
    return {"coverage": cov, "inconclusive": inconclusive,
            "assumptions": ["reference model is an MSB-first list of bools written independently in props/c18.py",
                            "negative indices and __setitem__ are outside the property (not exercised)"]}
