"""Engine shared by C01 (present keywords) and C02 (absent keywords).

Each shard walks the configuration grid of one scheme, generates every database class for each configuration,
runs the real KeyGen/EDBSetup/TokenGen/Search and compares with the plaintext database kept as a deep copy
taken before setup (the shadow copy, so a setup that mutates its input cannot fool the comparison).
"""
import copy
import json
import re

from vlib import gen, sse
from vlib.common import exc_site

MAX_PRESENT = 40
KEY_SHAPING = re.compile(r"lambda|^param_k(_prime)?$|^scheme$")


def scribble(got, id_size):
    """The caller owns what a search returned: it appends to it, sorts it, empties it. Nothing the library returns
    later may be affected (a shared or cached result object would be)."""
    try:
        if isinstance(got, list):
            got.append(b"\xee" * id_size)
            got.reverse()
            return True
        if isinstance(got, set):
            got.add(b"\xee" * id_size)
            return True
    except Exception:
        pass
    return False


def run(spec, acc, ctx, mode):
    scheme = spec["scheme"]
    short = gen.SHORT[scheme]
    rng = ctx.rng
    objects = {}
    gen.MIXED_ID_SIZES = True
    key_by_shape = {}
    for cid, cfg, cls, db, info in sse.iter_cases(spec, ctx):
        shadow = copy.deepcopy(db)
        cp = gen.caps(scheme, cfg)
        cfg_at_setup = copy.deepcopy(cfg)
        # Hidden state across calls: half of the cases re-use the scheme OBJECT of an earlier case with the identical
        # configuration, and most of those also re-use its KEY (a client that re-encrypts an updated database under
        # its key), sharing a few keywords with the earlier database.  Afterwards the EARLIER index is searched again.
        ck = json.dumps(cfg, sort_keys=True, default=str)
        prev = objects.get(ck) if rng.random() < 0.5 else None
        same_key = prev is not None and rng.random() < 0.6
        if prev is not None:
            # keywords are shared with the earlier database whether or not the key is kept: what the object remembers
            # per keyword (under the old key) must not answer for the new key
            for old_w in rng.sample(sorted(prev["db"]), min(2, len(prev["db"]))):
                if old_w not in db and len(old_w) <= cp["kw_limit"] and len(db) > 1:
                    victim = rng.choice(sorted(db))
                    db[old_w] = db.pop(victim)
            shadow = copy.deepcopy(db)
        use_obj = prev["obj"] if prev else None
        use_key = prev["key"] if same_key else None
        extra_absent = []
        # Same key bytes under ANOTHER configuration of the scheme whose key-shaping parameters are equal (a client
        # that keeps its key and changes label lengths or block sizes): nothing learnt under the old configuration
        # may leak into answers under the new one.
        shape = (scheme, tuple(sorted((k, v) for k, v in cfg.items() if KEY_SHAPING.search(k))))
        other = key_by_shape.get(shape)
        if prev is None and other is not None and other["ck"] != ck and rng.random() < 0.4:
            use_key = other["key"]
            extra_absent += [w for w in other["db"] if w not in db and len(w) <= cp["kw_limit"]][:4]
            acc.count("scheme_objects.key-from-another-configuration")
        # A setup that FAILS half-way on this very object and key (a database with one malformed posting, processed
        # after a few good keywords), then the real setup: nothing of the rejected database may be searchable.
        if rng.random() < 0.2:
            try:
                L = sse.loader(scheme)
                if use_obj is None:
                    use_obj = L.SSEScheme(cfg)
                if use_key is None:
                    use_key = use_obj.KeyGen()
                bad_db = {}
                for _ in range(rng.randint(1, 3)):
                    w = gen.gen_keyword(rng, cp["kw_limit"], set(db) | set(bad_db))
                    bad_db[w] = gen.gen_ids(rng, cp["id_size"], rng.randint(1, 3))
                poison = gen.gen_keyword(rng, cp["kw_limit"], set(db) | set(bad_db))
                bad_db[poison] = gen.gen_ids(rng, cp["id_size"], 2) + [rng.choice([None, 7, "id"])]
                try:
                    use_obj.EDBSetup(use_key, bad_db)
                    acc.count("rejected_setups.accepted")
                except Exception:
                    acc.count("rejected_setups")
                    extra_absent += [w for w in bad_db if w not in db]
            except Exception as e:
                acc.note(f"{short}: could not stage a rejected setup: {exc_site(e)}")
        st = sse.Setup(scheme, cfg, db, sse_obj=use_obj, key=use_key)
        acc.count("scheme_objects.reused-with-key" if same_key else "scheme_objects.reused" if prev else
                  "scheme_objects.fresh")
        if st.error is None and rng.random() < 0.35:
            # the caller goes on using ITS objects: the configuration dict is rewritten for the next experiment and the
            # database is edited; the index that was built, and searches on it, must not notice
            acc.count("caller_edits_inputs_after_setup")
            try:
                _, other_cfg = gen.pick_config(scheme, rng, rng.randrange(0, 40))
                keep_name = cfg.get("scheme")
                cfg.clear()
                cfg.update(other_cfg)
                if keep_name is not None:
                    cfg["scheme"] = keep_name
                for k in list(db)[:3]:
                    if db[k] is not None:
                        db[k].append(b"\xee" * cp["id_size"])
                        db[k].reverse()
                db[b"added-later"] = [b"\xdd" * cp["id_size"]]
                db.pop(next(iter(db)))
            except Exception as e:
                acc.note(f"{short}: could not edit the inputs: {exc_site(e)}")
        if st.error is None and prev is not None:
            # the earlier index must still answer as before, whatever the object has done since
            old = prev
            words = [(w, True) for w in rng.sample(sorted(old["db"]), min(2, len(old["db"])))] if mode == "present" \
                else [(w, False) for w, _ in gen.absent_keywords(rng, old["db"], cp["kw_limit"], k_random=1, k_close=1)]
            for w, present in words:
                acc.count("earlier_index_searches")
                try:
                    got = old["obj"].Search(old["edb"], old["obj"].TokenGen(old["key"], w)).get_result_list()
                    want = old["db"][w] if present else []
                    if not sse.result_matches(scheme, got, want):
                        acc.violation(f"{short}:earlier-index-answers-differently",
                                      f"{scheme}: after a later EDBSetup on the same scheme object, an earlier index returns "
                                      f"{len(got)} ids for a{' stored' if present else 'n absent'} keyword (expected {len(want)})",
                                      sse.case_desc(scheme, cid, cfg_at_setup, cls, shadow, {"earlier_db": old["db"], "keyword": w}))
                except Exception as e:
                    acc.violation(f"{short}:earlier-index-search-raised:{exc_site(e)}",
                                  f"{scheme}: after a later EDBSetup on the same scheme object, searching an earlier index "
                                  f"raised {type(e).__name__}: {e}",
                                  sse.case_desc(scheme, cid, cfg_at_setup, cls, shadow, {"earlier_db": old["db"], "keyword": w}))
        if st.error is None and same_key and prev.get("tokens"):
            # a token OBJECT that has already been used on the earlier index under this key is used again on the new one
            # (one trapdoor per query, sent to every index encrypted under the key)
            for w, tok in list(prev["tokens"].items()):
                if (mode == "present") != (w in shadow):
                    continue
                acc.count("token_objects_reused_on_a_second_index")
                want = shadow.get(w, [])
                try:
                    got = st.sse.Search(st.edb, tok).get_result_list()
                except Exception as e:
                    acc.violation(f"{short}:reused-token-search-raised:{exc_site(e)}",
                                  f"{scheme}: a token object already used on an earlier index under the same key raised "
                                  f"{type(e).__name__}: {e} on the new index",
                                  sse.case_desc(scheme, cid, cfg_at_setup, cls, shadow, {"earlier_db": prev["db"], "keyword": w}))
                    continue
                if not sse.result_matches(scheme, got, want):
                    acc.violation(f"{short}:reused-token-wrong-result" if mode == "present" else f"{short}:absent-nonempty",
                                  f"{scheme}: a token object already used on an earlier index under the same key returns "
                                  f"{len(got)} ids on the new index, expected {len(want)}",
                                  sse.case_desc(scheme, cid, cfg_at_setup, cls, shadow, {"earlier_db": prev["db"], "keyword": w}))
        earlier_keywords = [w for w in (prev["db"] if same_key else {}) if w not in shadow]
        if st.error is None:
            toks = {}
            try:
                for w in rng.sample(sorted(shadow), min(3, len(shadow))):
                    tk = st.sse.TokenGen(st.key, w)
                    st.sse.Search(st.edb, tk).get_result_list()
                    toks[w] = tk
            except Exception:
                toks = {}
            objects[ck] = {"obj": st.sse, "key": st.key, "db": shadow, "edb": st.edb, "tokens": toks}
            key_by_shape[shape] = {"key": st.key, "db": shadow, "ck": ck}
            if len(objects) > 48:
                objects.pop(next(iter(objects)))
        acc.count("cases")
        acc.count(f"cases.{short}")
        acc.add("classes." + short, cls)
        acc.add("configs." + short, cid)
        for tag in sse.db_tags(shadow):
            acc.add("tags." + short, tag)
        for c in info.get("pi2lev_cases", []):
            acc.add("pi2lev_cases", c)
        if st.error is not None:
            if mode == "present":
                acc.violation(sse.setup_signature(scheme, st),
                              f"{scheme} {st.phase} raised {type(st.error).__name__}: {st.error} on a valid "
                              f"database (class {cls}, N={info['N']}, {sse.db_tags(shadow)})",
                              sse.case_desc(scheme, cid, cfg_at_setup, cls, shadow))
            else:
                acc.count("setup_failed")
            continue
        nontrivial = False
        if mode == "present":
            kws = list(shadow)
            if len(kws) > MAX_PRESENT:
                kws = rng.sample(kws, MAX_PRESENT)
            for w in kws:
                acc.count("searches.present")
                acc.count(f"searches.present.{short}")
                try:
                    got = st.search(w)
                except Exception as e:
                    acc.violation(f"{short}:search-raised:{exc_site(e)}",
                                  f"{scheme} search of a stored keyword raised {type(e).__name__}: {e} "
                                  f"(class {cls}, |DB(w)|={len(shadow[w])}, N={info['N']})",
                                  sse.case_desc(scheme, cid, cfg_at_setup, cls, shadow, {"keyword": w}))
                    continue
                nontrivial = True
                acc.count("postings_compared", len(shadow[w]))
                ok_ = sse.result_matches(scheme, got, shadow[w])
                if ok_ and scribble(got, cp["id_size"]):
                    acc.count("results_scribbled_on_by_the_caller")
                if not ok_:
                    kind = sse.diff_kind(scheme, got, shadow[w])
                    acc.violation(f"{short}:wrong-result:{kind}",
                                  f"{scheme} result for a stored keyword differs ({kind}): got {len(got)} ids, "
                                  f"expected {len(shadow[w])} (class {cls}, N={info['N']})",
                                  sse.case_desc(scheme, cid, cfg_at_setup, cls, shadow, {"keyword": w}))
        else:
            for w, fam in gen.absent_keywords(rng, shadow, cp["kw_limit"]) + \
                    [(w, "stored-earlier-under-this-key") for w in earlier_keywords[:6]] + \
                    [(w, "seen-by-this-key-or-object-before") for w in extra_absent if w not in shadow]:
                acc.count("searches.absent")
                acc.count(f"searches.absent.{short}")
                acc.count("absent_family." + fam)
                try:
                    got = st.search(w)
                except Exception as e:
                    acc.violation(f"{short}:absent-search-raised:{exc_site(e)}",
                                  f"{scheme} search of an absent keyword ({fam}) raised {type(e).__name__}: {e}",
                                  sse.case_desc(scheme, cid, cfg_at_setup, cls, shadow, {"keyword": w, "family": fam}))
                    continue
                nontrivial = True
                try:
                    empty = len(got) == 0
                except TypeError:
                    empty = False
                if empty and scribble(got, cp["id_size"]):
                    acc.count("results_scribbled_on_by_the_caller")
                if not empty:
                    acc.violation(f"{short}:absent-nonempty",
                                  f"{scheme} search of an absent keyword ({fam}) returned {len(got)} identifiers",
                                  sse.case_desc(scheme, cid, cfg_at_setup, cls, shadow, {"keyword": w, "family": fam}))
        if nontrivial:
            acc.add("distinct", sse.case_fp(scheme, cid, shadow))
        if acc.counters.get("cases." + short, 0) <= 1:
            acc.sample({"scheme": scheme, "cfg_id": cid, "db_class": cls, "N": info["N"], "keywords": info["keywords"],
                        "list_lengths": info["lens"]})


def run_steered(spec, acc, ctx, mode):
    """Fresh scheme object and key per case, everything from KeyGen to the last search inside instrument.Steer: a few
    PRF outputs and os.urandom draws begin / end with patterns that content-sniffing code keys on, and so do some of
    the caller's keywords and identifiers. (No object or key reuse here: a value forced in one case must not meet an
    index built outside the context.)"""
    from vlib.instrument import Steer
    rng = ctx.rng
    gen.MIXED_ID_SIZES = False
    i = spec.get("index", 0)
    st_ = Steer(rng)
    while not ctx.out_of_time():
        scheme = gen.SCHEMES[i % len(gen.SCHEMES)]
        short = gen.SHORT[scheme]
        i += 1
        cid, cfg = gen.pick_config(scheme, rng, rng.randrange(40))
        cls = rng.choice(["tiny", "block-edge", "pow2-edge", "zipf", "single-pow2"])
        try:
            db, info = gen.make_db(rng, scheme, cfg, cls, rng.choice([4, 8, 16]))
            db, n_kw, n_id = gen.magic_db(rng, scheme, cfg, db)
        except ValueError:
            continue
        shadow = copy.deepcopy(db)
        cfg0 = copy.deepcopy(cfg)
        cp = gen.caps(scheme, cfg)
        acc.count("steered.cases")
        acc.count("steered.magic_keywords", n_kw)
        acc.count("steered.magic_identifiers", n_id)
        st_.arm()
        with st_:
            st = sse.Setup(scheme, cfg, db)
            extra = lambda **k: sse.case_desc(scheme, cid + ":steered", cfg0, cls, shadow,  # noqa: E731
                                              dict(k, steered=True, steered_patterns=list(st_.patterns)))
            if st.error is not None:
                if mode == "present":
                    acc.violation(sse.setup_signature(scheme, st) + ":steered",
                                  f"{scheme} {st.phase} raised {type(st.error).__name__}: {st.error} on a valid database "
                                  f"while some random values were forced to {st_.patterns}", extra())
                continue
            if mode == "present":
                words = [(w, "present") for w in list(shadow)[:12]]
            else:
                words = gen.absent_keywords(rng, shadow, cp["kw_limit"], k_random=2, k_close=5)
            for w, fam in words:
                acc.count("steered.searches")
                acc.count("steered.searches." + short)
                want = shadow.get(w, []) if mode == "present" else []
                try:
                    got = st.search(w)
                except Exception as e:
                    acc.violation(f"{short}:{'search' if mode == 'present' else 'absent-search'}-raised:{exc_site(e)}",
                                  f"{scheme} search ({fam}) raised {type(e).__name__}: {e} (forced: {st_.patterns})",
                                  extra(keyword=w))
                    continue
                if not sse.result_matches(scheme, got, want):
                    acc.violation(f"{short}:wrong-result:steered" if mode == "present" else f"{short}:absent-nonempty",
                                  f"{scheme} search ({fam}) returned {len(got)} ids, expected {len(want)} "
                                  f"(forced: {st_.patterns})", extra(keyword=w))
        acc.count("steered.prf_outputs_forced", st_.n_prf)
        acc.count("steered.urandom_draws_forced", st_.n_ur)
        st_.n_prf = st_.n_ur = 0


def run_feedback(spec, acc, ctx, mode):
    """Keywords taken from the scheme itself: while a first EDBSetup runs, a hook on the PRF collects every message the
    scheme evaluated that is not a keyword of the database (dummy keywords it pads with, keyword encodings with a prefix
    or counter, derived labels).  Those that are valid keywords are then (present mode) stored as REAL keywords of a
    second database built by a fresh object under a fresh key and searched, or (absent mode) searched on the first
    index, where they are absent.  A name the scheme reserves for itself collides here."""
    import toolkit.prf.hmac_prf as prf_mod
    rng = ctx.rng
    gen.MIXED_ID_SIZES = False
    i = spec.get("index", 0)
    while not ctx.out_of_time():
        scheme = gen.SCHEMES[i % len(gen.SCHEMES)]
        short = gen.SHORT[scheme]
        i += 1
        cid, cfg = gen.pick_config(scheme, rng, rng.randrange(40))
        cp = gen.caps(scheme, cfg)
        try:
            db, info = gen.make_db(rng, scheme, cfg, rng.choice(["tiny", "zipf", "pow2-edge"]), rng.choice([5, 9, 14]))
        except ValueError:
            continue
        if scheme not in ("CGKO06.SSE1", "CGKO06.SSE2") and rng.random() < 0.5:
            # one keyword of 65..300 bytes (longer than a hash block): whatever the PRF layer derives from long inputs
            # before keying shows up among the byte strings collected below
            victim = rng.choice(sorted(db))
            db[bytes([rng.randrange(1, 256)]) + rng.randbytes(rng.choice([64, 65, 127, 128, 129, 300]))] = db.pop(victim)
        seen = []
        orig = prf_mod.HmacPRF.__call__

        def recording(self, key, message):
            if len(seen) < 5000:
                seen.append(bytes(message))
            return orig(self, key, message)

        class _HmacProxy:
            """stands in for the name `hmac` inside toolkit.prf.hmac_prf: also the messages handed to HMAC itself are
            collected (what the PRF layer made of its input before keying)"""
            def __getattr__(self, name):
                return getattr(_real_hmac, name)

            def new(self, key, msg=None, digestmod=""):
                if msg is not None and len(seen) < 5000:
                    seen.append(bytes(msg))
                return _real_hmac.new(key, msg, digestmod)
        import hmac as _real_hmac
        had_hmac = getattr(prf_mod, "hmac", None)

        def hooks(on):
            prf_mod.HmacPRF.__call__ = recording if on else orig
            if had_hmac is not None:
                prf_mod.hmac = _HmacProxy() if on else had_hmac
        hooks(True)
        try:
            st1 = sse.Setup(scheme, copy.deepcopy(cfg), copy.deepcopy(db))
        finally:
            hooks(False)
        if st1.error is not None:
            continue
        first_seen = list(dict.fromkeys(seen))
        if mode == "absent":
            # only names that anybody can compute count as keywords a user may search: those the scheme evaluates AGAIN
            # in a second setup of the same database under another key (a random dummy keyword drawn for one setup is
            # searchable in that index by construction, but nobody can know it)
            del seen[:]
            hooks(True)
            try:
                st1 = sse.Setup(scheme, copy.deepcopy(cfg), copy.deepcopy(db))
            finally:
                hooks(False)
            if st1.error is not None:
                continue
            again = set(seen)
            first_seen = [m for m in first_seen if m in again]
        cands = []
        for m in first_seen:
            if m and m[0] != 0 and len(m) <= cp["kw_limit"] and m not in db and m not in cands:
                cands.append(m)
        acc.count("feedback.cases")
        acc.count("feedback.prf_messages_seen", len(seen))
        if not cands:
            acc.count("feedback.no_candidate")
            continue
        # prefer short, name-like candidates but keep a random few of the others
        cands.sort(key=lambda m: (len(m) > 16, rng.random()))
        cands = cands[:6]
        acc.count("feedback.candidate_keywords", len(cands))
        acc.add("feedback.schemes", short)
        if mode == "absent":
            for w in cands:
                acc.count("feedback.searches")
                try:
                    got = st1.search(w)
                except Exception as e:
                    acc.violation(f"{short}:absent-search-raised:{exc_site(e)}",
                                  f"{scheme}: a keyword the scheme itself evaluated during setup (not a keyword of the "
                                  f"database) raised {type(e).__name__}: {e}",
                                  sse.case_desc(scheme, cid, cfg, "feedback", db, {"keyword": w, "family": "feedback"}))
                    continue
                if len(got) != 0:
                    acc.violation(f"{short}:absent-nonempty",
                                  f"{scheme}: a keyword the scheme itself evaluated during setup ({w[:24]!r}) is not in the "
                                  f"database but its search returned {len(got)} identifiers",
                                  sse.case_desc(scheme, cid, cfg, "feedback", db, {"keyword": w, "family": "feedback"}))
            continue
        db2 = copy.deepcopy(db)
        try:
            pool = gen.gen_ids(rng, cp["id_size"], 3 * len(cands) + 2)
        except Exception:
            continue
        mx = max(1, min(3, cp.get("max_list", 3)))
        for n, w in enumerate(cands):
            db2[w] = pool[3 * n: 3 * n + rng.randint(1, mx)]
        N = sum(len(v) for v in db2.values())
        if N & (N - 1) == 0:
            # a total that is not a power of two: the padding schemes then add dummy entries of their own
            short_one = [w for w in cands if len(db2[w]) < mx]
            if short_one:
                db2[short_one[0]] = db2[short_one[0]] + [pool[-1]]
                N += 1
        if N > cp.get("max_total", 10 ** 9) or len(db2) > cp.get("max_keywords", 10 ** 9):
            continue
        if scheme == "CJJ14.Pi2Lev" and gen.pi2lev_A_len(cfg, [len(v) for v in db2.values()]) > cp["max_A_len"]:
            continue
        if scheme == "CGKO06.SSE2":
            cfg = dict(cfg, param_n=len({x for v in db2.values() for x in v}) + 2)
        shadow = copy.deepcopy(db2)
        st2 = sse.Setup(scheme, copy.deepcopy(cfg), db2)
        case = sse.case_desc(scheme, cid, cfg, "feedback", shadow, {"feedback_keywords": cands})
        if st2.error is not None:
            acc.violation(sse.setup_signature(scheme, st2) + ":feedback",
                          f"{scheme} {st2.phase} raised {type(st2.error).__name__}: {st2.error} on a valid database whose "
                          f"keywords include byte strings the scheme evaluated during an earlier setup", case)
            continue
        for w in shadow:
            acc.count("feedback.searches")
            try:
                got = st2.search(w)
            except Exception as e:
                acc.violation(f"{short}:search-raised:{exc_site(e)}", f"{scheme}: {type(e).__name__}: {e} (feedback "
                                                                      f"keywords)", dict(case, keyword=w))
                continue
            if not sse.result_matches(scheme, got, shadow[w]):
                acc.violation(f"{short}:wrong-result:{sse.diff_kind(scheme, got, shadow[w])}",
                              f"{scheme}: in a database whose keywords include byte strings the scheme evaluated during an "
                              f"earlier setup ({[c[:16] for c in cands][:3]}), the result for {w[:24]!r} has {len(got)} ids, "
                              f"expected {len(shadow[w])}", dict(case, keyword=w))


LONG_LENGTHS = [254, 255, 256, 257, 300, 511, 512, 513, 1000, 4096, 65537]


def run_long_keywords(spec, acc, ctx, mode):
    """Keywords of hundreds to tens of thousands of bytes (the seven schemes without a keyword-length limit; SSE-1 / SSE-2
    with param_l = 600), several of which share their first 254 / 255 / 256 / 300 / 1000 bytes. Stored siblings must each
    get their own list; absent siblings (same long prefix, other tail; truncations; extensions) must get nothing."""
    rng = ctx.rng
    gen.MIXED_ID_SIZES = False
    i = spec.get("index", 0)
    while not ctx.out_of_time():
        scheme = gen.SCHEMES[i % len(gen.SCHEMES)]
        short = gen.SHORT[scheme]
        i += 1
        cfg = gen.default_config(scheme)
        lengths = list(LONG_LENGTHS)
        if scheme in ("CGKO06.SSE1", "CGKO06.SSE2"):
            cfg.update(param_l=600)
            lengths = [254, 255, 256, 257, 300, 511, 512, 513, 599, 600]
            if scheme == "CGKO06.SSE1":
                cfg.update(param_s=64, param_dictionary_size=16)
        cp = gen.caps(scheme, cfg)
        isz = cp["id_size"]
        pool = gen.gen_ids(rng, isz, 40)
        db, absent = {}, []
        base_len = rng.choice(lengths)
        base = bytes([rng.randrange(1, 256)]) + rng.randbytes(base_len - 1)
        cut = rng.choice([c for c in (254, 255, 256, 300, 1000, base_len - 1) if c < base_len])
        sib = base[:cut] + bytes([base[cut] ^ 0x55]) + rng.randbytes(base_len - cut - 1)
        db[base] = pool[0:3]
        db[sib] = pool[3:5]                               # a STORED sibling with the same first `cut` bytes
        db[rng.randbytes(3).replace(b"\x00", b"\x01") or b"k"] = pool[5:7]
        other_len = rng.choice(lengths)
        db[bytes([7]) + rng.randbytes(other_len - 1)] = pool[7:8]
        for c in (254, 255, 256, 257, 300, 512, 1000, base_len - 1):
            if c < base_len:
                absent.append((base[:c], f"truncated-to-{c if c != base_len - 1 else 'len-1'}"))
                absent.append((base[:c] + rng.randbytes(base_len - c), f"same-first-{c if c != base_len - 1 else 'len-1'}-bytes"))
        absent += [(base + b"x", "extended"), (base + base, "doubled"), (base[:-1] + bytes([base[-1] ^ 1]), "last-bit")]
        absent = [(w, f) for (w, f) in absent if w and w[0] != 0 and w not in db and len(w) <= cp["kw_limit"]
                  or (w and w[0] != 0 and w not in db and scheme not in ("CGKO06.SSE1", "CGKO06.SSE2"))]
        if scheme == "CGKO06.SSE2":
            cfg["param_n"] = len({x for v in db.values() for x in v}) + 1
        if scheme in ("CGKO06.SSE1", "CGKO06.SSE2"):
            if any(len(w) > cfg["param_l"] for w in db):
                continue
            absent = [(w, f) for (w, f) in absent if len(w) <= cfg["param_l"]]
        shadow = copy.deepcopy(db)
        st = sse.Setup(scheme, copy.deepcopy(cfg), db)
        acc.count("long_keywords.cases")
        acc.add("long_keywords.schemes", short)
        case = sse.case_desc(scheme, "long-keywords", cfg, "long-keywords", shadow)
        if st.error is not None:
            if mode == "present":
                acc.violation(sse.setup_signature(scheme, st) + ":long-keywords",
                              f"{scheme} {st.phase} raised {type(st.error).__name__}: {st.error} on a database with keywords "
                              f"of {sorted(len(w) for w in shadow)} bytes", case)
            continue
        words = [(w, "stored") for w in shadow] if mode == "present" else rng.sample(absent, min(8, len(absent)))
        for w, fam in words:
            acc.count("long_keywords.searches")
            want = shadow.get(w, []) if mode == "present" else []
            try:
                got = st.search(w)
            except Exception as e:
                acc.violation(f"{short}:{'search' if mode == 'present' else 'absent-search'}-raised:{exc_site(e)}",
                              f"{scheme}: search of a {len(w)}-byte keyword ({fam}) raised {type(e).__name__}: {e}",
                              dict(case, keyword=w, family=fam))
                continue
            if not sse.result_matches(scheme, got, want):
                acc.violation(f"{short}:wrong-result:long-keyword" if mode == "present" else f"{short}:absent-nonempty",
                              f"{scheme}: a {len(w)}-byte keyword ({fam}; the database holds keywords of "
                              f"{sorted(len(x) for x in shadow)} bytes, two of which share their first {cut} bytes) returned "
                              f"{len(got)} ids, expected {len(want)}", dict(case, keyword=w, family=fam))


def run_threads(spec, acc, ctx, mode):
    """ONE scheme object, one key, one index: three threads generate tokens and search their own word lists at the same
    moment (a server thread pool), with forced switch points in schemes/ and toolkit/. Every answer as if alone."""
    import os
    from vlib import instrument
    rng = ctx.rng
    repo = os.environ.get("VERIF_REPO", "/repo")
    gen.MIXED_ID_SIZES = False
    for scheme in [x for _ in range(spec.get("rounds", 1)) for x in spec["schemes"]]:
        short = gen.SHORT[scheme]
        cfg = gen.default_config(scheme)
        if scheme == "CGKO06.SSE1":
            cfg.update(param_s=64, param_dictionary_size=16)
        cp = gen.caps(scheme, cfg)
        try:
            db, info = gen.make_db(rng, scheme, cfg, "zipf", 10)
        except ValueError:
            continue
        shadow = copy.deepcopy(db)
        st = sse.Setup(scheme, copy.deepcopy(cfg), db)
        if st.error is not None:
            continue
        absent = [w for w, _ in gen.absent_keywords(rng, shadow, cp["kw_limit"], k_random=3, k_close=5)]
        present = list(shadow)
        lists = []
        for t in range(3):
            # every thread mixes stored and absent keywords (each check judges its own kind, the other kind is traffic)
            ws = [rng.choice(present) for _ in range(400)] + [rng.choice(absent) for _ in range(400)]
            rng.shuffle(ws)
            lists.append(ws)
        bad = []
        done = [0]

        def worker(ws):
            def go():
                import time as _t
                t_end = _t.monotonic() + spec.get("seconds_per_scheme", 4) / 5
                for w in ws:
                    if bad or _t.monotonic() > t_end:
                        return
                    done[0] += 1
                    try:
                        # a server's worker threads only search (tokens arrive ready-made); a client's also derive tokens
                        tk = ready.get(w) if search_only[0] else None
                        got = st.sse.Search(st.edb, tk if tk is not None else st.sse.TokenGen(st.key, w)).get_result_list()
                    except Exception as e:      # noqa
                        bad.append((w, "raised", exc_site(e), f"{type(e).__name__}: {e}"))
                        return
                    if not sse.result_matches(scheme, got, shadow.get(w, [])):
                        bad.append((w, "wrong", "", f"{len(got)} ids, expected {len(shadow.get(w, []))}"))
            return go
        errs, nyields = [], 0
        search_only = [False]
        try:
            ready = {w: st.sse.TokenGen(st.key, w) for w in set(present) | set(absent)}
        except Exception:
            ready = {}
        for every in (3, 3, 17, 17, 61):      # switch points from "every third statement" to "now and then"
            if bad:
                break
            search_only[0] = not search_only[0]
            with instrument.YieldInjector(repo, subdirs=("schemes", "toolkit"), every=every) as yi:
                errs += instrument.run_threads([worker(ws) for ws in lists], timeout=120)
            nyields += yi.yields
            for ws in lists:
                rng.shuffle(ws)

        class yi:       # noqa
            yields = nyields
        acc.count("threads.cases")
        acc.count("threads.searches", done[0])
        acc.count("threads.forced_switch_points", yi.yields)
        acc.add("threads.schemes", short)
        if any(isinstance(e, TimeoutError) for e in errs):
            acc.count("threads.watchdog")
            return
        case = sse.case_desc(scheme, "threads", cfg, "threads", shadow, {"threads": True})
        for w, what, site, msg in [b for b in bad if (b[0] in shadow) == (mode == "present")][:1] or bad[:1]:
            is_present = w in shadow
            if is_present != (mode == "present"):
                # judged by the other property's check; recorded
                acc.note(f"{short}: a {'present' if is_present else 'absent'} keyword went wrong under threads: {msg}")
                continue
            if what == "raised":
                acc.violation(f"{short}:{'search' if is_present else 'absent-search'}-raised-when-searched-from-threads:{site}",
                              f"{scheme}: three threads search one scheme object and one index at the same moment: the "
                              f"search of a{' stored' if is_present else 'n absent'} keyword raised {msg}", dict(case, keyword=w))
            else:
                acc.violation(f"{short}:{'wrong-result' if is_present else 'absent-nonempty'}:searched-from-threads",
                              f"{scheme}: three threads search one scheme object and one index at the same moment: a"
                              f"{' stored' if is_present else 'n absent'} keyword returned {msg}", dict(case, keyword=w))


def run_generations(spec, acc, ctx, mode, sig_prefix=""):
    """Object lifetime: ONE scheme object builds index after index of a changing collection; every index is searched
    and then DROPPED (del + sometimes gc.collect) before the next is built, so the next index object - and, when the
    key changes too, the next key object - is likely to be allocated where the dead one lived. Keywords come and go
    between generations and posting lists change. Whatever the object remembers by identity (id(), weak tables) must
    not answer for the new generation. mode: 'present' | 'absent' | 'both'."""
    import gc
    rng = ctx.rng
    gen.MIXED_ID_SIZES = False
    for scheme in [x for _ in range(spec.get("rounds", 1)) for x in spec["schemes"]]:
        if ctx.out_of_time():
            break
        short = gen.SHORT[scheme]
        cfg = gen.default_config(scheme)
        if scheme == "CGKO06.SSE1":
            cfg.update(param_s=64, param_dictionary_size=16)
        cp = gen.caps(scheme, cfg)
        isz = cp["id_size"]
        L = sse.loader(scheme)
        universe = [b"kw-%d" % i for i in range(6)]
        pool = gen.gen_ids(rng, isz, 30)
        if scheme == "CGKO06.SSE2":
            cfg = dict(cfg, param_n=len(pool))
        sch = L.SSEScheme(copy.deepcopy(cfg))
        key = sch.KeyGen()
        bad = False
        edb = None
        ngen = spec.get("generations", 120)
        for g in range(ngen):
            same_key_mode = g < ngen // 2          # first half: one key; second half: a new key object every generation
            if bad or ctx.out_of_time():
                break
            if not same_key_mode:
                key = None
                key = sch.KeyGen()
            db = {}
            for w in universe:
                if rng.random() < 0.6:
                    db[w] = rng.sample(pool, rng.randint(1, 4))
            if not db:
                db[universe[0]] = pool[:2]
            shadow = copy.deepcopy(db)
            try:
                if rng.random() < 0.5:
                    # the next index is prepared (built and serialized) while the current one is still alive; only then is
                    # the current one dropped and the next one restored from its bytes - the allocation that follows the
                    # release most directly, as in a server that reloads an index
                    raw_next = sch.EDBSetup(key, db).serialize()
                    cobj_next = L.SSEConfig(copy.deepcopy(cfg))
                    edb = None
                    edb = L.SSEEncryptedDatabase.deserialize(raw_next, cobj_next)
                else:
                    edb = None
                    edb = sch.EDBSetup(key, db)
            except Exception as e:
                acc.violation(f"{short}:{sig_prefix}edbsetup-raised:generations:{exc_site(e)}",
                              f"{scheme}: generation {g} of a collection re-indexed by one scheme object raised "
                              f"{type(e).__name__}: {e}", {"scheme": scheme, "cfg": cfg, "generations": True})
                break
            acc.count("generations.indexes")
            for w in universe:
                present = w in shadow
                if mode != "both" and (mode == "present") != present:
                    # still searched (it is what fills a cache), judged by the other property's check
                    try:
                        sch.Search(edb, sch.TokenGen(key, w)).get_result_list()
                    except Exception:
                        pass
                    continue
                acc.count("generations.searches")
                want = shadow.get(w, [])
                try:
                    got = sch.Search(edb, sch.TokenGen(key, w)).get_result_list()
                except Exception as e:
                    acc.violation(f"{short}:{sig_prefix}{'search' if present else 'absent-search'}-raised:generations:{exc_site(e)}",
                                  f"{scheme}: generation {g} (earlier indexes dropped, {'one key' if same_key_mode else 'a new key each time'}): "
                                  f"{type(e).__name__}: {e}", {"scheme": scheme, "cfg": cfg, "generations": True})
                    bad = True
                    break
                if not sse.result_matches(scheme, got, want):
                    acc.violation(f"{short}:{sig_prefix}{'wrong-result' if present else 'absent-nonempty'}:generations",
                                  f"{scheme}: generation {g} of a collection re-indexed by ONE scheme object "
                                  f"({'one key' if same_key_mode else 'a new key for every generation'}; every earlier index "
                                  f"was dropped before the next was built): a{' stored' if present else 'n absent'} keyword "
                                  f"returns {len(got)} ids, this generation holds {len(want)}",
                                  {"scheme": scheme, "cfg": cfg, "generations": True, "same_key": same_key_mode})
                    bad = True
                    break
            # (the index stays alive until the next one is about to be made: see above)
            if g % 5 == 4:
                edb = None
                gc.collect()
        edb = None
        acc.add("generations.schemes", short)


def run_interrupted(spec, acc, ctx, mode, sig_prefix=""):
    """Operations cut short: a TokenGen, a Search or an EDBSetup on a long-lived scheme object is interrupted at a random
    statement inside the library (KeyboardInterrupt raised by a sys.monitoring failpoint: Ctrl-C, an alarm-driven
    deadline) and the SAME call is then made again on the same object, key and index. The repeated call must be as
    good as a first one: what an abandoned operation left behind must not be taken for a finished result."""
    import os
    from vlib import instrument
    rng = ctx.rng
    repo = os.environ.get("VERIF_REPO", "/repo")
    gen.MIXED_ID_SIZES = False
    for scheme in [x for _ in range(spec.get("rounds", 1)) for x in spec["schemes"]]:
        if ctx.out_of_time():
            break
        short = gen.SHORT[scheme]
        cfg = gen.default_config(scheme)
        if scheme == "CGKO06.SSE1":
            cfg.update(param_s=64, param_dictionary_size=16)
        cp = gen.caps(scheme, cfg)
        try:
            db, info = gen.db_from_lens(rng, scheme, cfg, [9, 5, 2, 1], "interrupted")
        except ValueError:
            continue
        if scheme == "CGKO06.SSE2":
            cfg["param_n"] = len({x for v in db.values() for x in v}) + 1
        shadow = copy.deepcopy(db)
        st = sse.Setup(scheme, copy.deepcopy(cfg), copy.deepcopy(db))
        if st.error is not None:
            continue
        words = ([(w, True) for w in shadow] if mode != "absent" else []) + \
                ([(w, False) for w, _ in gen.absent_keywords(rng, shadow, cp["kw_limit"], 1, 2)] if mode != "present" else [])
        case = sse.case_desc(scheme, "interrupted", cfg, "interrupted", shadow, {"interrupted": True})
        bad = False
        for w, present in words:
            if bad:
                break
            for op in ("tokengen", "search"):
                # count run on a TWIN scheme object (the object under test must meet the interrupted call as the first
                # call of its kind for this keyword), then cut points spread over the operation: for tokengen the first
                # cut is the first TokenGen this object ever makes for the keyword
                twin = st.L.SSEScheme(copy.deepcopy(cfg))
                with instrument.FailAt(repo) as cnt:
                    tk0 = twin.TokenGen(st.key, w)
                    if op == "search":
                        cnt.lines = 0
                        twin.Search(st.edb, tk0)
                total = cnt.lines
                if not cnt.ok or total < 2:
                    continue
                # (the first cut of a keyword is the one that meets an untouched object: early in the operation for the
                # keyword with the longest list - little has been produced by then -, anywhere for the others)
                first_cut = rng.randint(max(1, total // 50), max(1, total // 4)) if w == words[0][0] \
                    else rng.randint(1, max(1, total - 1))
                cuts = [first_cut] + sorted({1, total // 3, total // 2, total - 1, rng.randint(1, total)})
                for k in cuts:
                    if k < 1:
                        continue
                    tk = st.sse.TokenGen(st.key, w) if op == "search" else None
                    try:
                        with instrument.FailAt(repo, k) as fp_:
                            if op == "tokengen":
                                st.sse.TokenGen(st.key, w)
                            else:
                                st.sse.Search(st.edb, tk)
                        acc.count("interrupted.not_interrupted")
                    except BaseException:       # noqa: whatever the library turns the interruption into
                        acc.count("interrupted." + op)
                    want = shadow.get(w, [])
                    try:
                        got = st.sse.Search(st.edb, st.sse.TokenGen(st.key, w)).get_result_list()
                    except Exception as e:
                        acc.violation(f"{short}:{sig_prefix}{'search' if present else 'absent-search'}-raised:after-an-interrupted-{op}:{exc_site(e)}",
                                      f"{scheme}: a {op} was interrupted at statement {k} of {total}; the same call repeated on "
                                      f"the same object raised {type(e).__name__}: {e}", dict(case, keyword=w))
                        bad = True
                        break
                    acc.count("interrupted.repeated_calls_compared")
                    if not sse.result_matches(scheme, got, want):
                        acc.violation(f"{short}:{sig_prefix}{'wrong-result' if present else 'absent-nonempty'}:after-an-interrupted-{op}",
                                      f"{scheme}: a {op} was interrupted at statement {k} of {total} (KeyboardInterrupt inside the "
                                      f"library); the same call repeated on the same object, key and index returns {len(got)} ids, "
                                      f"expected {len(want)}", dict(case, keyword=w))
                        bad = True
                        break
                if bad:
                    break
        acc.add("interrupted.schemes", short)


def replay_steered(case, acc, ctx, mode):
    from vlib.instrument import Steer
    st_ = Steer(ctx.rng, p=0.3, cap=12)
    scheme = case["scheme"]
    for _ in range(150):
        st_.arm()
        db = copy.deepcopy(case["db"])
        with st_:
            st = sse.Setup(scheme, copy.deepcopy(case["cfg"]), db)
            acc.count("replayed")
            if st.error is not None:
                if mode == "present":
                    acc.violation(sse.setup_signature(scheme, st) + ":steered", str(st.error), case)
                    return
                continue
            words = list(case["db"]) if mode == "present" else [case["keyword"]] if "keyword" in case else []
            for w in words:
                try:
                    got = st.search(w)
                except Exception as e:
                    acc.violation("replay:search-raised", f"{type(e).__name__}: {e}", case)
                    return
                if not sse.result_matches(scheme, got, case["db"].get(w, []) if mode == "present" else []):
                    acc.violation("replay:wrong-result", f"{len(got)} ids", case)
                    return


SEARCH_FUNCS = {
    "CJJ14.PiBas": "schemes/CJJ14/PiBas/construction.py:PiBas._Search",
    "CJJ14.PiPack": "schemes/CJJ14/PiPack/construction.py:PiPack._Search",
    "CJJ14.PiPtr": "schemes/CJJ14/PiPtr/construction.py:PiPtr._Search",
    "CJJ14.Pi2Lev": "schemes/CJJ14/Pi2Lev/construction.py:Pi2Lev._Search",
    "CGKO06.SSE1": "schemes/CGKO06/SSE1/construction.py:SSE1._Search",
    "CGKO06.SSE2": "schemes/CGKO06/SSE2/construction.py:SSE2._Search",
    "CT14.Pi": "schemes/CT14/Pi/construction.py:Pi._Search",
    "ANSS16.Scheme3": "schemes/ANSS16/Scheme3/construction.py:Pi._Search",
    "DP17.Pi": "schemes/DP17/Pi/construction.py:Pi._Search",
}


def finish(m, tier, mode, min_searches):
    c = m["counters"]
    inc = []
    ent = set(m["sets"].get("functions_entered", []))
    per = {}
    for s in gen.SCHEMES:
        short = gen.SHORT[s]
        n = c.get(f"searches.{mode}.{short}", 0)
        per[short] = {"cases": c.get(f"cases.{short}", 0), "searches": n,
                      "configs": len(m["sets"].get("configs." + short, [])),
                      "db_classes": sorted(m["sets"].get("classes." + short, [])),
                      "boundary_tags": sorted(m["sets"].get("tags." + short, []))}
        if n < min_searches:
            inc.append(f"{short}: only {n} {mode} searches compared (< {min_searches})")
        if SEARCH_FUNCS[s] not in ent:
            inc.append(f"{SEARCH_FUNCS[s]} never entered")
        if mode == "present":
            missing = set(gen.DB_CLASSES) - set(per[short]["db_classes"])
            if missing:
                inc.append(f"{short}: database classes never generated: {sorted(missing)}")
            for tag in ("N=1", "list=2^t"):
                if tag not in per[short]["boundary_tags"]:
                    inc.append(f"{short}: boundary class {tag} never generated")
    if mode == "present" and set(m["sets"].get("pi2lev_cases", [])) != {"small", "medium", "large"}:
        inc.append(f"Pi2Lev cases seen: {sorted(m['sets'].get('pi2lev_cases', []))}")
    if mode == "absent" and c.get("setup_failed", 0) > 0.2 * max(1, c.get("cases", 0)):
        inc.append(f"{c.get('setup_failed')} of {c.get('cases')} setups failed; absent searches under-observed")
    cov = {
        "evaluations": c.get("cases", 0),
        "distinct_nontrivial": len(m["sets"].get("distinct", [])),
        "rule": "case = (scheme, configuration from the supported grid, database of one of 9 classes generated for that "
                "configuration); non-trivial = at least one search of the judged kind completed and was compared with "
                "the plaintext shadow copy; distinct = distinct (scheme, cfg id, database fingerprint).",
        "exhaustive": False,
        "per_scheme": per,
        "searches_compared": c.get(f"searches.{mode}", 0),
        "pi2lev_cases_seen": sorted(m["sets"].get("pi2lev_cases", [])),
        "insitu_contract_evaluations": {k: v for k, v in c.items() if k.startswith("insitu.")},
        "scheme_objects": {"fresh": c.get("scheme_objects.fresh", 0),
                           "reused_from_an_earlier_case_fresh_key": c.get("scheme_objects.reused", 0),
                           "reused_with_the_earlier_key": c.get("scheme_objects.reused-with-key", 0),
                           "searches_of_the_earlier_index_afterwards": c.get("earlier_index_searches", 0),
                           "key_taken_from_another_configuration": c.get("scheme_objects.key-from-another-configuration", 0)},
        "setups_rejected_half_way_before_the_real_one": c.get("rejected_setups", 0),
        "cases_in_which_the_caller_edited_cfg_and_db_after_setup": c.get("caller_edits_inputs_after_setup", 0),
    }
    cov["keywords_taken_from_the_schemes_own_prf_inputs"] = {k[9:]: v for k, v in c.items() if k.startswith("feedback.")}
    cov["results_scribbled_on_by_the_caller"] = c.get("results_scribbled_on_by_the_caller", 0)
    # (SSE-1, SSE-2 and DP17 evaluate their PRF on stored keywords only; ANSS16 only draws dummy keywords when it pads)
    need = 5 if mode == "present" else 4
    if c.get("feedback.searches", 0) < 300 or len(m["sets"].get("feedback.schemes", [])) < need:
        inc.append(f"the feedback-keyword workload compared fewer than 300 searches or reached fewer than {need} schemes: "
                   f"{sorted(m['sets'].get('feedback.schemes', []))}")
    cov["long_keywords"] = {k[14:]: v for k, v in c.items() if k.startswith("long_keywords.")}
    cov["searches_from_three_threads_on_one_object"] = {k[8:]: v for k, v in c.items() if k.startswith("threads.")}
    cov["token_objects_reused_on_a_second_index"] = c.get("token_objects_reused_on_a_second_index", 0)
    if len(m["sets"].get("long_keywords.schemes", [])) < 9 or c.get("long_keywords.searches", 0) < 200:
        inc.append("the long-keyword workload did not reach the nine schemes / 200 searches")
    if len(m["sets"].get("threads.schemes", [])) < 9 or c.get("threads.forced_switch_points", 0) < 1000:
        inc.append("searches from three threads did not reach the nine schemes / 1000 forced switches")
    if c.get("token_objects_reused_on_a_second_index", 0) < 100:
        inc.append("fewer than 100 token objects were reused on a second index")
    cov["generations_of_dropped_indexes_on_one_object"] = {k[12:]: v for k, v in c.items() if k.startswith("generations.")}
    if len(m["sets"].get("generations.schemes", [])) < 9 or c.get("generations.searches", 0) < 1000:
        inc.append("the dropped-index generations did not reach the nine schemes / 1000 searches")
    cov["operations_interrupted_and_repeated"] = {k[12:]: v for k, v in c.items() if k.startswith("interrupted.")}
    if len(m["sets"].get("interrupted.schemes", [])) < 9 or c.get("interrupted.repeated_calls_compared", 0) < 200:
        inc.append("interrupted-and-repeated operations did not reach the nine schemes / 200 comparisons")
    cov["steered_values"] = {k[8:]: v for k, v in c.items() if k.startswith("steered.") and k.count(".") == 1}
    if c.get("steered.prf_outputs_forced", 0) < 200 or c.get("steered.searches", 0) < 500:
        inc.append("the steered-values workload forced fewer than 200 PRF outputs or compared fewer than 500 searches")
    if mode == "present":
        cov["postings_compared"] = c.get("postings_compared", 0)
    else:
        cov["absent_families"] = {k[14:]: v for k, v in c.items() if k.startswith("absent_family.")}
    return cov, inc
