"""C05 - index size and layout reveal only the scheme's public size parameter.

Monitor shape: invariant over groups of executions. For each configuration a *family* of valid databases is built
so that several members collide on the public size parameter pi_S with maximally different list-length profiles,
keywords and contents; shape(EDB) - a canonical description (container kinds, entry counts, multisets of key /
value byte lengths) obtained by a generic walk of the structure unpickled from EDB.serialize() - must be identical
inside every pi_S group, and every padded table / array must hold keys of one length and values of one length.
"""
import copy
import math
import pickle

from vlib import gen, sse
from vlib.common import exc_site, fp

LEVEL = "exploration"
SHARD_TIMEOUT = {"quick": 240, "thorough": 1500}


def plan(tier, seed):
    specs = sse.scheme_shards(tier, per_scheme_quick=2, per_scheme_thorough=3, budget_quick=14, budget_thorough=220)
    # tens of thousands of postings with 16-byte identifiers: level entries of more than a MiB (CT14 / ANSS16 pad
    # whole levels with random strings), many DP17 levels, a PiBas table of 30000 entries
    for k, pl in enumerate(BIG):
        specs.append({"name": f"big-{k}", "kind": "big", "plan": k, "budget_s": 200 if tier == "quick" else 600})
    # one database dict indexed by several threads at the same moment (own scheme objects, own keys)
    for j in range(3 if tier == "quick" else 6):
        specs.append({"name": f"shared-input-threads-{j}", "kind": "shared_input", "index": j, "primitive_monitors": False,
                      "budget_s": 12 if tier == "quick" else 150})
    for j in range(3):
        specs.append({"name": f"shared-scheme-object-threads-{j}", "kind": "shared_input", "primitive_monitors": False,
                      "shared_object": gen.SCHEMES[3 * j: 3 * j + 3], "rounds": 1 if tier == "quick" else 10,
                      "budget_s": 200})
    return specs


BIG = [("CJJ14.PiPtr", {"param_B": 2, "param_b": 64, "param_identifier_size": 8},
        # more than 256 array cells: pointers need two bytes
        # (both profiles: 300 identifier blocks and 150 pointer blocks)
        [[4] * 150, [6] * 75 + [2] * 75]),
       ("CT14.Pi", {"param_identifier_size": 16}, [[32768, 1], [8192] * 4 + [1]]),
       ("ANSS16.Scheme3", {"param_identifier_size": 16}, [[20000, 3000, 1], [10000, 10000, 3001]]),
       ("DP17.Pi", {"param_identifier_size": 16, "param_L": 2}, [[20000, 5], [5000] * 4 + [5]]),
       ("CJJ14.PiBas", {}, [[30000], [10000] * 3])]


def run_big(spec, acc, ctx):
    scheme, over, profiles = BIG[spec["plan"]]
    short = gen.SHORT[scheme]
    rng = ctx.rng
    cfg = gen.default_config(scheme)
    cfg.update(over)
    L = sse.loader(scheme)
    shapes = []
    for lens in profiles:
        db, info = gen.db_from_lens(rng, scheme, cfg, list(lens), "big")
        acc.count("cases")
        acc.count("big_cases")
        case = {"scheme": scheme, "cfg": cfg, "list_lengths": lens}
        try:
            sch = L.SSEScheme(cfg)
            raw = sch.EDBSetup(sch.KeyGen(), db).serialize()
            body = pickle.loads(raw[raw.find(b"\x80"):])
        except Exception as e:
            acc.violation(f"{short}:big-setup-raised:{exc_site(e)}", f"{type(e).__name__}: {e} (list lengths {lens})", case)
            return
        for (path, what, lens_seen) in uniformity_problems(body):
            acc.violation(f"{short}:mixed-{what}", f"{scheme}, N={sum(lens)}: {path} holds {what} {lens_seen} (padding "
                                                   f"entries are distinguishable by length)", case)
            return
        acc.count("tables_checked_for_uniform_lengths")
        shapes.append(shape(body))
        del body, raw
    acc.count("shape_comparisons")
    if shapes[0] != shapes[1]:
        acc.violation(f"{short}:shape-depends-on-more-than-pi",
                      f"{scheme}: two databases of {sum(profiles[0])} postings have differently shaped indexes: list "
                      f"lengths {profiles[0][:5]} vs {profiles[1][:5]}", {"scheme": scheme, "cfg": cfg})
    acc.add("distinct", fp("big", scheme))
    acc.add("big_schemes", scheme)


def edb_shape(edb):
    raw = edb.serialize()
    return shape(pickle.loads(raw[raw.find(b"\x80"):]))


def shared_object_round(acc, ctx, repo, sname):
    """Three threads share ONE scheme object (it holds nothing but the configuration) and index three databases of
    different sizes under their own keys at the same moment; every index must have the shape it has when built alone."""
    from vlib import instrument
    import threading
    rng = ctx.rng
    cfg = gen.default_config(sname)
    if sname == "CGKO06.SSE1":
        cfg.update(param_s=64, param_dictionary_size=16)
    if sname == "DP17.Pi":
        cfg["param_L"] = rng.choice([1, 2])
    dbs = []
    try:
        for _ in range(3):
            lens = [rng.randint(1, 6) for _ in range(rng.randint(2, 6))]
            dbs.append(gen.db_from_lens(rng, sname, cfg, lens, "profile", fix_config=False)[0])
        if sname == "CGKO06.SSE2":
            cfg["param_n"] = max(len({i for v in d.values() for i in v}) for d in dbs) + 2
        ref = []
        for d in dbs:
            s1 = sse.loader(sname).SSEScheme(copy.deepcopy(cfg))
            ref.append(edb_shape(s1.EDBSetup(s1.KeyGen(), copy.deepcopy(d))))
    except Exception as e:
        acc.note(f"shared-object: reference failed: {exc_site(e)}")
        return
    acc.count("cases")
    acc.count("shared_input.shared_object_cases")
    sch = sse.loader(sname).SSEScheme(copy.deepcopy(cfg))
    bad, built, lock = [], [0], threading.Lock()

    def worker(i):
        def go():
            for _ in range(3):
                if bad:
                    return
                try:
                    shp = edb_shape(sch.EDBSetup(sch.KeyGen(), copy.deepcopy(dbs[i])))
                except Exception as e:     # noqa
                    with lock:
                        bad.append(("raised", exc_site(e), f"{type(e).__name__}: {e}"))
                    return
                with lock:
                    built[0] += 1
                    if shp != ref[i]:
                        bad.append(("shape", "", ""))
        return go
    with instrument.YieldInjector(repo, subdirs=("schemes", "toolkit"), every=5) as yi:
        errs = instrument.run_threads([worker(i) for i in range(3)], timeout=120)
    acc.count("shared_input.indexes_built_concurrently", built[0])
    acc.count("shared_input.forced_switch_points", yi.yields)
    acc.add("shared_input.shared_object_schemes", gen.SHORT[sname])
    if any(isinstance(e, TimeoutError) for e in errs):
        acc.count("shared_input.watchdog")
        return
    short = gen.SHORT[sname]
    case = {"shared_input": True, "shared_object": True, "scheme": sname, "cfg": cfg}
    for what, site, msg in bad[:1]:
        if what == "shape":
            acc.violation(f"{short}:shape-differs-when-the-scheme-object-is-shared-by-threads",
                          f"{sname}: three threads index three databases with ONE scheme object at the same moment: an index "
                          f"got a shape that differs from the one built alone from the same database", case)
        else:
            acc.violation(f"{short}:setup-raised-when-the-scheme-object-is-shared-by-threads:{site}",
                          f"{sname}: EDBSetup raised {msg} while two other threads used the same scheme object (alone it "
                          f"succeeds)", case)


def run_shared_input(spec, acc, ctx):
    """Three threads, each with its own scheme object and key, index ONE database dict at the same moment (reading
    one dict from several threads is legitimate use), with forced switch points in schemes/ and toolkit/. Every index
    must have the shape of the index that scheme builds single-threaded from a private copy of the same database; a
    setup that raises although it succeeds alone is reported too (correct code only reads its input)."""
    import os
    import threading
    from vlib import instrument
    rng = ctx.rng
    repo = os.environ.get("VERIF_REPO", "/repo")
    k = spec.get("index", 0)
    if spec.get("shared_object"):
        for sname in spec["shared_object"]:
            for _ in range(spec.get("rounds", 2)):
                shared_object_round(acc, ctx, repo, sname)
        return
    while not ctx.out_of_time():
        trio = rng.sample(gen.SCHEMES, 3)
        if k % 2 == 0 and "CT14.Pi" not in trio and "ANSS16.Scheme3" not in trio:
            trio[0] = rng.choice(["CT14.Pi", "ANSS16.Scheme3"])     # the two schemes that pad the database itself
        k += 1
        cfgs = {}
        for sname in trio:
            cfg = gen.default_config(sname)
            cfg["param_identifier_size"] = 8 if "param_identifier_size" in cfg else None
            if cfg["param_identifier_size"] is None:
                del cfg["param_identifier_size"]
            if sname == "CGKO06.SSE1":
                cfg.update(param_s=512, param_dictionary_size=64)
            cfgs[sname] = cfg
        nkw = rng.randint(3, 9)
        lens = [rng.randint(1, 12) for _ in range(nkw)]
        if sum(lens) & (sum(lens) - 1) == 0:
            lens[0] += 1            # N not a power of two: the padding schemes have something to add
        try:
            db, info = gen.db_from_lens(rng, "CJJ14.PiBas", cfgs.get("CJJ14.PiBas") or gen.default_config("CJJ14.PiBas"),
                                        lens, "profile", fix_config=False)
        except ValueError:
            continue
        shadow = copy.deepcopy(db)
        ref = {}
        try:
            for sname in trio:
                sch = sse.loader(sname).SSEScheme(copy.deepcopy(cfgs[sname]))
                ref[sname] = edb_shape(sch.EDBSetup(sch.KeyGen(), copy.deepcopy(db)))
        except Exception as e:
            acc.note(f"shared-input: single-threaded reference failed: {exc_site(e)}")
            continue
        acc.count("cases")
        acc.count("shared_input.cases")
        bad, built = [], [0]
        lock = threading.Lock()
        stop = [False]

        def worker(sname):
            def go():
                sch = sse.loader(sname).SSEScheme(copy.deepcopy(cfgs[sname]))
                for _ in range(6):
                    if stop[0]:
                        return
                    try:
                        shp = edb_shape(sch.EDBSetup(sch.KeyGen(), db))
                    except Exception as e:     # noqa
                        with lock:
                            bad.append((sname, "raised", exc_site(e), f"{type(e).__name__}: {e}"))
                        stop[0] = True
                        return
                    with lock:
                        built[0] += 1
                        if shp != ref[sname]:
                            bad.append((sname, "shape", "", ""))
                            stop[0] = True
            return go
        with instrument.YieldInjector(repo, subdirs=("schemes", "toolkit"), every=5) as yi:
            errs = instrument.run_threads([worker(sname) for sname in trio], timeout=120)
        acc.count("shared_input.indexes_built_concurrently", built[0])
        acc.count("shared_input.forced_switch_points", yi.yields)
        acc.add("shared_input.scheme_trios", "+".join(sorted(gen.SHORT[x] for x in trio)))
        if any(isinstance(e, TimeoutError) for e in errs):
            acc.count("shared_input.watchdog")
            acc.note("shared-input thread workload hit its watchdog")
            return
        case = {"shared_input": True, "schemes": trio, "cfgs": cfgs, "db": shadow}
        for sname, what, site, msg in bad[:1]:
            short = gen.SHORT[sname]
            if what == "shape":
                acc.violation(f"{short}:shape-differs-when-the-database-is-shared-with-another-thread",
                              f"{sname}: while {', '.join(x for x in trio if x != sname)} indexed the same database dict in "
                              f"other threads, the index got a shape that differs from the one built alone from the same "
                              f"database (the size then depends on more than the public size parameter)", case)
            else:
                acc.violation(f"{short}:setup-raised-when-the-database-is-shared-with-another-thread:{site}",
                              f"{sname} EDBSetup raised {msg} while other threads only indexed the same database dict "
                              f"(alone it succeeds)", case)
        if db != shadow:
            acc.violation("shared-input:database-changed", "the caller's database differs after the concurrent setups",
                          case)
        acc.add("distinct", fp("shared-input", sorted(trio), lens))


# ------------------------------------------------------------------------------------------------ shape
def leaf(x):
    if isinstance(x, (bytes, bytearray)):
        return ("b", len(x))
    if isinstance(x, bool):
        return ("bool",)
    if isinstance(x, int):
        return ("int",)
    if x is None:
        return ("none",)
    return None


def shape(x):
    lf = leaf(x)
    if lf is not None:
        return lf
    if isinstance(x, dict):
        items = [(leaf(k) or ("?", type(k).__name__), shape(v)) for k, v in x.items()]
        if all(isinstance(k, int) and not isinstance(k, bool) for k in x) and \
                any(isinstance(v, (dict, list, tuple)) for v in x.values()):
            # int-keyed dict of containers (DP17 level -> buckets): keep the keys, they are public structure
            return ("dict-by-int", tuple(sorted((k, shape(v)) for k, v in x.items())))
        return ("dict", len(x), multiset(items))
    if isinstance(x, (list, tuple)):
        if any(isinstance(v, (dict, list, tuple)) for v in x):
            return ("seq", tuple(shape(v) for v in x))
        return ("list", len(x), multiset([shape(v) for v in x]))
    if isinstance(x, (set, frozenset)):
        return ("set", len(x), multiset([shape(v) for v in x]))
    return ("?", type(x).__name__)


def multiset(items):
    d = {}
    for it in items:
        d[it] = d.get(it, 0) + 1
    return tuple(sorted(d.items(), key=repr))


def uniformity_problems(x, path="edb"):
    """Every table (dict with bytes keys) and every flat array of byte strings must use one key length and one
    value length.  DP17's per-level bucket lists end with one shorter bucket by construction (a function of N),
    which shape equality covers, so 'one shorter last element' is tolerated for lists of byte strings."""
    out = []
    if isinstance(x, dict):
        klens = {len(k) for k in x if isinstance(k, (bytes, bytearray))}
        vlens = {len(v) for v in x.values() if isinstance(v, (bytes, bytearray))}
        if len(klens) > 1:
            out.append((path, "key-lengths", sorted(klens)))
        if len(vlens) > 1:
            out.append((path, "value-lengths", sorted(vlens)))
        for k, v in x.items():
            if isinstance(v, (dict, list, tuple)):
                out += uniformity_problems(v, f"{path}[{k!r:.12}]")
    elif isinstance(x, (list, tuple)):
        blens = [len(v) for v in x if isinstance(v, (bytes, bytearray))]
        if blens:
            body = set(blens[:-1]) if len(blens) > 1 else set(blens)
            if len(body) > 1 or (len(blens) > 1 and blens[-1] > max(body)):
                out.append((path, "entry-lengths", sorted(set(blens))))
        for i, v in enumerate(x):
            if isinstance(v, (dict, list, tuple)):
                out += uniformity_problems(v, f"{path}[{i}]")
    return out


# ------------------------------------------------------------------------------------------------ public parameter
def pi_S(scheme, cfg, db):
    lens = [len(v) for v in db.values()]
    N = sum(lens)
    if scheme == "CGKO06.SSE1":
        return ()
    if scheme in ("CGKO06.SSE2", "CJJ14.PiBas", "DP17.Pi"):
        return (N,)
    if scheme == "CJJ14.PiPack":
        return (sum(math.ceil(n / cfg["param_B"]) for n in lens),)
    if scheme == "CJJ14.PiPtr":
        blocks = [math.ceil(n / cfg["param_B"]) for n in lens]
        return (sum(blocks), sum(math.ceil(m / cfg["param_b"]) for m in blocks))
    if scheme == "CJJ14.Pi2Lev":
        return (len(lens), gen.pi2lev_A_len(cfg, lens))
    if scheme in ("CT14.Pi", "ANSS16.Scheme3"):
        return (math.ceil(math.log2(N)) if N > 1 else 0,)
    raise ValueError(scheme)


# ------------------------------------------------------------------------------------------------ families
def profiles_with_total(rng, N, max_list, max_keywords):
    out = [[N], [1] * N]
    for _ in range(3):
        out.append(gen.partition(rng, N, rng.randint(1, min(N, 6))))
    if N >= 4:
        out.append([N - 2, 1, 1])
        out.append([N // 2, N - N // 2])
    res = []
    for p in out:
        if max(p) <= max_list and len(p) <= max_keywords and p not in res:
            res.append(p)
    return res


def family(rng, scheme, cfg, tier):
    """List of list-length profiles built to collide on pi_S."""
    cp = gen.caps(scheme, cfg)
    big = 40 if tier == "quick" else 130
    if scheme == "CGKO06.SSE1":
        top = min(cfg["param_s"] - 1, 30)
        return [p for _ in range(3) for p in profiles_with_total(rng, rng.randint(1, top), 10 ** 9,
                                                                   cfg["param_dictionary_size"])][:9]
    if scheme in ("CJJ14.PiBas", "DP17.Pi", "CGKO06.SSE2"):
        top = 16 if scheme.endswith("SSE2") else big
        Ns = rng.sample([1, 2, 3, 4, 5, 7, 8, 9, 15, 16, 17, 31, 32, 33, 64, 65, 100, 127, 128, 129], 3)
        fam = []
        for N in Ns:
            N = min(N, top)
            fam += profiles_with_total(rng, N, 255 ** cp["id_size"], 10 ** 9)[:5]
        return fam
    if scheme in ("CT14.Pi", "ANSS16.Scheme3"):
        fam = []
        for t in rng.sample(range(0, 7 if tier == "quick" else 9), 2):
            lo, hi = (2 ** (t - 1) + 1 if t > 0 else 1), 2 ** t
            Ns = {lo, hi, rng.randint(lo, hi), rng.randint(lo, hi)}
            for N in Ns:
                fam += profiles_with_total(rng, N, 255 ** cp["id_size"], 10 ** 9)[:4]
        return fam
    if scheme in ("CJJ14.PiPack", "CJJ14.PiPtr"):
        B = cfg["param_B"]
        fam = []
        for _ in range(2):
            blocks = [rng.randint(1, 4) for _ in range(rng.randint(1, 5))]
            for _ in range(4):  # same block profile, lengths vary inside the last block, order shuffled
                p = [(m - 1) * B + rng.randint(1, B) for m in blocks]
                rng.shuffle(p)
                fam.append(p)
            M = sum(blocks)
            fam += [[1] * M, [M * B], [(M - 1) * B + 1] if M > 1 else [1]]
            for _ in range(3):
                parts = gen.partition(rng, M, rng.randint(1, M))
                fam.append([(m - 1) * B + rng.randint(1, B) for m in parts])
        return [p for p in fam if max(p) <= 255 ** cp["id_size"]]
    if scheme == "CJJ14.Pi2Lev":
        B, b, Bp, bp = cfg["param_B"], cfg["param_b"], cfg["param_B_prime"], cfg["param_b_prime"]
        fam = []
        for _ in range(2):
            k = rng.randint(1, 5)
            base = []
            for _ in range(k):
                kind = rng.choice(["small", "medium", "large"])
                if kind == "small":
                    base.append(rng.randint(1, b))
                elif kind == "medium" and B * bp > b:
                    base.append(rng.randint(b + 1, B * bp))
                elif kind == "large" and B * Bp * bp - 1 > B * bp:
                    base.append(rng.randint(B * bp + 1, min(B * Bp * bp - 1, B * bp + 6 * B)))
                else:
                    base.append(rng.randint(1, b))
            base = [min(n, cp["max_list"], 255 ** cp["id_size"]) for n in base]
            if gen.pi2lev_A_len(cfg, base) > cp["max_A_len"]:
                base = [min(n, b) for n in base]
            fam.append(base)
            # neighbours that keep (keywords, A_len): vary inside blocks, shuffle
            for _ in range(5):
                p = []
                for n in base:
                    if n <= b:
                        p.append(rng.randint(1, b))
                    else:
                        m = math.ceil(n / B)
                        cand = (m - 1) * B + rng.randint(1, B)
                        p.append(cand if gen.pi2lev_case_of(cfg, cand) == gen.pi2lev_case_of(cfg, n) and
                                 math.ceil(cand / (B * Bp)) == math.ceil(n / (B * Bp)) else n)
                rng.shuffle(p)
                fam.append([min(n, 255 ** cp["id_size"]) for n in p])
        return fam
    raise ValueError(scheme)


def run_config(scheme, cid, cfg0, acc, ctx):
    short = gen.SHORT[scheme]
    rng = ctx.rng
    cfg = copy.deepcopy(cfg0)
    if scheme == "CGKO06.SSE1":
        cfg["param_dictionary_size"] = rng.choice([8, 16, 64])
    fam = family(rng, scheme, cfg, ctx.tier)
    if scheme == "CGKO06.SSE2":
        cfg["param_n"] = 18
    L = sse.loader(scheme)
    groups = {}
    for lens in fam:
        if ctx.out_of_time():
            break
        cls = rng.choice(["profile", "zero-bytes", "shared-id"])
        try:
            db, info = gen.db_from_lens(rng, scheme, cfg, list(lens), cls, fix_config=False)
        except ValueError:
            continue
        if scheme == "CGKO06.SSE2" and len({i for v in db.values() for i in v}) > cfg["param_n"]:
            continue
        acc.count("cases")
        acc.count("cases." + short)
        case = sse.case_desc(scheme, cid, cfg, cls, db)
        try:
            sch = L.SSEScheme(cfg)
            key = sch.KeyGen()
            edb = sch.EDBSetup(key, copy.deepcopy(db))
            raw = edb.serialize()
        except Exception as e:
            acc.count("setup_failed")
            acc.note(f"{short} setup failed: {exc_site(e)} lens={lens}")
            continue
        # unpickle the body behind the scheme's header
        idx = raw.find(b"\x80")
        try:
            body = pickle.loads(raw[idx:])
        except Exception:
            acc.count("unpickle_failed")
            continue
        sh = shape(body)
        acc.count("edbs_shaped")
        for (path, what, lens_seen) in uniformity_problems(body):
            acc.count("uniformity_violations_seen")
            acc.violation(f"{short}:mixed-{what}", f"{scheme}: {path} holds {what} {lens_seen} (padding entries are "
                                                   f"distinguishable by length)", case)
        acc.count("tables_checked_for_uniform_lengths")
        pi = pi_S(scheme, cfg, db)
        groups.setdefault(pi, []).append((sh, db, sorted(lens, reverse=True)))
    for pi, members in groups.items():
        if len(members) < 2:
            continue
        acc.count("groups")
        acc.count("groups." + short)
        if len(members) >= 3:
            acc.count("groups3." + short)
        acc.add("distinct", fp(scheme, cid, pi, [m[2] for m in members]))
        first = members[0]
        for other in members[1:]:
            acc.count("shape_comparisons")
            if other[0] != first[0]:
                acc.violation(f"{short}:shape-depends-on-more-than-pi",
                              f"{scheme}: two databases with public size parameter {pi} have differently shaped "
                              f"indexes: list lengths {first[2][:8]} vs {other[2][:8]}",
                              {"scheme": scheme, "cfg_id": cid, "cfg": cfg, "pi": list(pi), "db": first[1],
                               "db2": other[1]})
                break
    return groups


def run_shard(spec, acc, ctx):
    if spec.get("kind") == "big":
        run_big(spec, acc, ctx)
        return
    if spec.get("kind") == "shared_input":
        run_shared_input(spec, acc, ctx)
        return
    scheme = spec["scheme"]
    rng = ctx.rng
    i = spec["index"]
    first = True
    while not ctx.out_of_time():
        cid, cfg = gen.pick_config(scheme, rng, i)
        i += spec["of"]
        groups = run_config(scheme, cid, cfg, acc, ctx)
        acc.add("configs." + gen.SHORT[scheme], cid)
        if first and groups:
            pi, members = max(groups.items(), key=lambda kv: len(kv[1]))
            acc.sample({"scheme": scheme, "cfg_id": cid, "pi_S": list(pi),
                        "list_length_profiles_in_group": [m[2][:8] for m in members][:6]})
            first = False


def replay(case, acc, ctx):
    if case.get("shared_input"):
        ctx.budget = 60
        run_shared_input({"index": 0}, acc, ctx)
        acc.count("replayed")
        return
    scheme, cfg = case["scheme"], case["cfg"]
    L = sse.loader(scheme)
    shapes = []
    for db in (case["db"], case.get("db2")):
        if db is None:
            continue
        sch = L.SSEScheme(cfg)
        raw = sch.EDBSetup(sch.KeyGen(), copy.deepcopy(db)).serialize()
        body = pickle.loads(raw[raw.find(b"\x80"):])
        shapes.append(shape(body))
        for (path, what, lens_seen) in uniformity_problems(body):
            acc.violation("replay:mixed-" + what, f"{path} {lens_seen}", case)
    if len(shapes) == 2 and shapes[0] != shapes[1]:
        acc.violation("replay:shape-differs", "shapes differ", case)
    acc.count("replayed")


def finish(m, tier, seed):
    c = m["counters"]
    inc = []
    per = {}
    for s in gen.SCHEMES:
        short = gen.SHORT[s]
        per[short] = {"databases": c.get("cases." + short, 0), "pi_groups": c.get("groups." + short, 0),
                      "pi_groups_with_3+": c.get("groups3." + short, 0),
                      "configurations": len(m["sets"].get("configs." + short, []))}
        if per[short]["pi_groups_with_3+"] < 10:
            inc.append(f"{short}: only {per[short]['pi_groups_with_3+']} pi-groups with >= 3 members")
    if c.get("setup_failed", 0) > 0.25 * max(1, c.get("cases", 0)):
        inc.append(f"{c.get('setup_failed')} of {c.get('cases')} setups failed")
    cov = {
        "evaluations": c.get("cases", 0),
        "distinct_nontrivial": len(m["sets"].get("distinct", [])),
        "rule": "evaluation = one database of a per-configuration family built to collide on pi_S (1xN, Nx1, random "
                "partitions, all N in (2^(t-1), 2^t], equal block counts with different lengths inside blocks, ...); "
                "non-trivial unit = a pi_S group with >= 2 members whose shapes were compared; distinct = distinct "
                "(scheme, cfg id, pi_S, member length profiles).",
        "exhaustive": False,
        "per_scheme": per,
        "edbs_shaped": c.get("edbs_shaped", 0),
        "pi_groups_compared": c.get("groups", 0),
        "shape_comparisons": c.get("shape_comparisons", 0),
        "edbs_checked_for_uniform_lengths": c.get("tables_checked_for_uniform_lengths", 0),
        "setup_failed": c.get("setup_failed", 0),
        "databases_of_20000_to_33000_postings": c.get("big_cases", 0),
        "one_database_dict_indexed_by_three_threads": {k[13:]: v for k, v in c.items() if k.startswith("shared_input.")},
        "scheme_trios_sharing_one_database": len(m["sets"].get("shared_input.scheme_trios", [])),
    }
    if len(m["sets"].get("shared_input.shared_object_schemes", [])) < 9:
        inc.append("threads sharing one scheme object: not all nine schemes were reached")
    if c.get("shared_input.indexes_built_concurrently", 0) < 100 or c.get("shared_input.forced_switch_points", 0) < 1000:
        inc.append("the shared-input thread workload built fewer than 100 indexes or forced fewer than 1000 switches")
    if len(m["sets"].get("big_schemes", [])) < len(BIG):
        inc.append("the large-database shards did not complete")
    return {"coverage": cov, "inconclusive": inc,
            "assumptions": ["shape = container kinds, entry counts and multisets of (key length, value length) of the "
                            "structure unpickled from EDB.serialize(); int keys form one class",
                            "pi_S is computed by the model from the plaintext database as stated in the property",
                            "a list of byte strings may end with one shorter element (DP17's last bucket, a function "
                            "of N); everything else must have one length"]}
