"""C10 - server keeps each service in a forward-only, write-once state machine.

Monitor shape: trace conformance against a 3-state reference model. Every sequence over the 8 message kinds
{config c1, config c2, upload e1, upload e2, search, reconnect, foreign-sid message, unknown-type message} up to
a bounded depth is executed with a raw websocket client against the real connection handler (fresh sid per
sequence, in-process server, cleanup delay virtualised); the observable trace - init-echo state of every
connection, ok/refused for config and upload, the search result (which identifies the index that answered) -
must equal the model's, and at the end the files on disk must be the accepted configuration and index.
Bursts: 2..4 requests written back-to-back without reading replies (after 0, 1 or 2 acknowledged steps): no more
acknowledgements than the requests up to the first refusal grant, and afterwards state, files and search per model.
"""
import asyncio
import itertools
import json
import os
import pickle

from vlib import wsharness as wh
from vlib.common import exc_site, fp, retry_on_timeout

LEVEL = "exploration"
SHARD_TIMEOUT = {"quick": 280, "thorough": 1700}
SYMS = ["c1", "c2", "u1", "u2", "s", "re", "fo", "un"]
PSYMS = ["c1", "c2", "u1", "u2", "s"]


def plan(tier, seed):
    depth = 4 if tier == "quick" else 5
    specs = []
    if tier == "quick":
        for a in SYMS:
            for b in SYMS:
                specs.append({"name": f"exh-{a}{b}", "kind": "exh", "prefix": [a, b], "depth": depth, "budget_s": 200})
        for a in SYMS:
            specs.append({"name": f"exh1-{a}", "kind": "exh", "prefix": [a], "depth": 1, "budget_s": 60})
    else:
        for a in SYMS:
            specs.append({"name": f"exh1-{a}", "kind": "exh", "prefix": [a], "depth": 1, "budget_s": 60})
        for a in SYMS:
            for b in SYMS:
                specs.append({"name": f"exh-{a}{b}", "kind": "exh", "prefix": [a, b], "depth": depth, "budget_s": 1500})
    if tier == "thorough":
        # one level deeper for the sequences that start by getting a configuration accepted (c2 is symmetric to c1)
        for b in SYMS:
            for c3 in SYMS:
                specs.append({"name": f"exh6-c1{b}{c3}", "kind": "exh", "prefix": ["c1", b, c3], "depth": 6,
                              "exact_len": True, "budget_s": 1500})
    # a restart of the server process between connections (symbol rs): every sequence of exactly four symbols over
    # {c1, c2, u1, u2, s, rs} that contains a restart
    for a in PSYMS + ["rs"]:
        specs.append({"name": f"restart-{a}", "kind": "restart", "first": a, "budget_s": 120 if tier == "quick" else 600,
                      "length": 4 if tier == "quick" else 5})
    # a configuration that cannot be stored (symbol cx): every sequence of 2..4 symbols over {cx, c1, u1, s, re, rs} that
    # contains it, reconnects after the cleanup, inside it, and late
    for a in ["cx", "c1", "u1", "s", "re", "rs"]:
        specs.append({"name": f"unstorable-{a}", "kind": "unstorable", "first": a, "budget_s": 120 if tier == "quick" else 600,
                      "length": 4 if tier == "quick" else 5})
    # bursts: 2..4 requests written back-to-back on one connection, without waiting for the replies
    for a in PSYMS:
        specs.append({"name": f"burst-{a}", "kind": "burst", "first": a, "depth": 3 if tier == "quick" else 4,
                      "budget_s": 120 if tier == "quick" else 900})
    for i in range(8 if tier == "quick" else 16):
        specs.append({"name": f"rand{i}", "kind": "rand", "index": i, "sequences": 60 if tier == "quick" else 900,
                      "budget_s": 60 if tier == "quick" else 900})
    if tier == "thorough":
        specs.append({"name": "realtime", "kind": "realtime", "sequences": 12, "budget_s": 300})
    return specs


class Fixture:
    def __init__(self, rng):
        import schemes
        # the service's scheme varies from shard to shard (configurations with repeated string values, other
        # token / index formats); identifiers are 8 bytes everywhere
        self.scheme = rng.choice(["CJJ14.PiBas", "CJJ14.PiBas", "CT14.Pi", "ANSS16.Scheme3", "CJJ14.PiPack"])
        L = schemes.load_sse_module(self.scheme)
        base = dict(L.SSEConfig.get_default_config())
        if "param_identifier_size" in base:
            base["param_identifier_size"] = 8
        # (a configuration may carry entries the scheme ignores, like the client's own "salt": here a description that is
        # not ASCII - what is stored and read back must not depend on the interpreter's default text encoding)
        self.c1 = dict(base, salt="aa" * 16, description="Gr\u00f6\u00dfe \u2014 \u6570\u636e\u5e93 \u2126")
        self.c2 = dict(base, salt="bb" * 16, description="r\u00e9sum\u00e9 \U0001f512")
        sch = L.SSEScheme(base)
        self.key = sch.KeyGen()
        self.kw = b"keyword"
        self.ids = {"e1": [b"\x01" * 8, b"\x02" * 8, b"\x03" * 8], "e2": [b"\x0a" * 8, b"\x0b" * 8]}
        self.edb = {k: sch.EDBSetup(self.key, {self.kw: list(v), b"other": [b"\x77" * 8]}).serialize()
                    for k, v in self.ids.items()}
        self.token = sch.TokenGen(self.key, self.kw).serialize()
        # more than one question can be asked of a ready service: another stored keyword and an absent one
        self.tokens = {"kw": self.token, "other": sch.TokenGen(self.key, b"other").serialize(),
                       "absent": sch.TokenGen(self.key, b"no-such-keyword").serialize()}
        self.answers = {"other": [b"\x77" * 8], "absent": []}
        self.L = L


class Model:
    def __init__(self):
        self.state, self.cfg, self.edb = 0, None, None

    def step(self, sym):
        """Returns the expected observable for a request symbol (None = no reply expected)."""
        if sym in ("c1", "c2"):
            if self.state == 0:
                self.state, self.cfg = 1, sym
                return "ok"
            return "refused"
        if sym in ("u1", "u2"):
            if self.state == 1:
                self.state, self.edb = 2, "e" + sym[1]
                return "ok"
            return "refused"
        if sym == "s":
            return ("result", self.edb) if self.state == 2 else "refused"
        if sym in ("un", "cx"):
            return "refused"
        return None


class Runner:
    def __init__(self, acc, ctx, server, fx):
        self.acc, self.ctx, self.server, self.fx = acc, ctx, server, fx
        self.n = 0

    async def run_sequence(self, seq, gated=False):
        """gated=True: every reconnect happens INSIDE the predecessor's cleanup delay (a client that reconnects
        within one second): the delay is held by a gate and released once the new connection has its init echo."""
        acc, fx = self.acc, self.fx
        self.n += 1
        proxy = self.server.env["proxy"]
        gate = wh.Gate() if gated else None
        late = gated == "late"   # the cleanup delay outlives the reconnect: it is released only when the server
        proxy.gate = gate        # turns out to be waiting for it (no reply within 40 ms), or at the next reconnect
        acc.count("sequences.gated-late" if late else "sequences.gated" if gated else "sequences.ungated")
        rng = self.ctx.rng
        sid = "%064x" % (rng.getrandbits(255) + 1)
        shape = rng.choice(["hex64", "hex64", "hex64", "short", "long", "mixed-case", "dashed"])
        if shape == "short":
            sid = "svc-%x" % rng.getrandbits(40)
        elif shape == "long":
            sid = sid + "%x" % rng.getrandbits(rng.choice([4, 64, 200]))
        elif shape == "mixed-case":
            sid = sid[:20].upper() + sid[20:]
        elif shape == "dashed":
            sid = sid[:8] + "-" + sid[8:40] + "_" + sid[40:]
        acc.add("sid_shapes", shape)
        # messages carrying a FOREIGN sid: unrelated ones and near misses of the connection's own sid
        near = [sid[:8] + ("0" if sid[8:9] != "0" else "1") * max(1, len(sid) - 8), sid[:-1] + ("0" if sid[-1] != "0" else "1"),
                sid + "0", sid[1:] or "x", sid.swapcase() if sid.swapcase() != sid else "f" * 64, "f" * 64, ""]
        foreign = [x for x in near if x != sid]
        model = Model()
        trace = []
        n_search = 0
        which_tok, sent_digest = "kw", b"digest"
        digest_mode = ["constant", "sha256", "omitted"][self.n % 3]
        case = {"sequence": list(seq), "trace": trace, "token_digest_mode": digest_mode}

        def viol(sig, msg):
            acc.violation("server:" + sig, msg + f"  (sequence {' '.join(seq)})", dict(case, sid=sid))

        conn = None

        async def connect(why):
            nonlocal conn
            conn = await wh.RawConn(self.server.uri, sid).open()
            trace.append(["init", conn.init_state])
            acc.count("events.init")
            if gate is not None and not late:
                acc.count("cleanup_delays_released_after_reconnect", gate.release_all())
            acc.add("pairs", f"{model.state}:connect")
            if conn.init_state != model.state:
                viol(f"init-echo-state:{why}", f"a new connection ({why}) was told state {conn.init_state!r}, the "
                                               f"accepted requests so far imply {model.state}")
                return False
            return True

        try:
            if not await connect("first"):
                return
            for sym in seq:
                acc.add("pairs", f"{model.state}:{sym}")
                acc.count("messages")
                if sym == "re":
                    await conn.close()
                    if not await connect("reconnect"):
                        return
                    continue
                if not conn.is_open:
                    if not await connect("after-closure"):
                        return
                if sym == "cx":
                    # a configuration that passes every check a protocol handler can make on a dict but cannot be stored
                    # as JSON (raw bytes / a set as a value): never acknowledged, so nothing may change
                    bad_cfg = dict(fx.c1, salt=rng.choice([b"\x00\x01raw-bytes", {"a", "b"}, 1 + 2j]))
                    await conn.send("config", pickle.dumps(bad_cfg))
                    acc.count("unstorable_configurations_sent")
                elif sym in ("c1", "c2"):
                    await conn.send("config", pickle.dumps(getattr(fx, sym)))
                elif sym in ("u1", "u2"):
                    await conn.send("upload_edb", fx.edb["e" + sym[1]])
                elif sym == "s":
                    # the first search of a sequence asks for the main keyword; later ones rotate through another stored
                    # keyword and an absent one.  The optional token_digest field is, per sequence, a constant, the
                    # real SHA-256 of the token, or left out (the server only echoes it).
                    which_tok = ["kw", "other", "absent", "kw"][n_search % 4]
                    n_search += 1
                    tok = fx.tokens[which_tok]
                    if digest_mode == "constant":
                        sent_digest = b"digest"
                    elif digest_mode == "sha256":
                        import hashlib
                        sent_digest = hashlib.sha256(tok).digest()
                    else:
                        sent_digest = None
                    acc.count("search_requests." + which_tok)
                    acc.count("search_requests.digest-" + digest_mode)
                    if sent_digest is None:
                        await conn.send("token", tok)
                    else:
                        await conn.send("token", tok, token_digest=sent_digest)
                elif sym == "rs":
                    # the server process is restarted (through the repository's own run_server): durable state only
                    await conn.close()
                    await wh.settle(10)
                    await asyncio.sleep(0.01)
                    await self.server.restart()
                    proxy = self.server.env["proxy"]
                    acc.count("server_restarts")
                    if not await connect("after-server-restart"):
                        return
                    continue
                elif sym == "fo":
                    f1, f2, f3 = rng.choice(foreign), rng.choice(foreign), rng.choice(foreign)
                    await conn.send("config", pickle.dumps(fx.c2), sid=f1)
                    await conn.send("upload_edb", fx.edb["e2"], sid=f2)
                    await conn.send("token", fx.token, sid=f3, token_digest=b"x")
                    acc.count("foreign_sid_messages", 3)
                elif sym == "un":
                    # a type the server does not define: made-up ones and names a reader of the README might try, with
                    # payloads that would do damage if some handler accepted them
                    ut = rng.choice(["delete", "upload_config", "upload_db", "search", "config_upload", "edb", "result",
                                     "control", "upload-edb", "Config", "CONFIG", "token ", ""])
                    payload = rng.choice([b"", pickle.dumps(fx.c2), fx.edb["e2"], fx.token])
                    await conn.send(ut, payload, token_digest=b"digest")
                    acc.add("unknown_types", ut)
                expected = model.step(sym)
                if sym == "s" and isinstance(expected, tuple) and which_tok != "kw":
                    expected = ("result", which_tok)
                if expected is None:
                    trace.append([sym, "no-reply-expected"])
                    continue
                if late:
                    # no reply within 40 ms: the server may be waiting for a predecessor's cleanup delay (which can
                    # reach the gate at any moment) - release whatever is pending and keep waiting, up to 6 s in all
                    ev = None
                    for _ in range(150):
                        try:
                            ev = await conn.next_event(0.04)
                            break
                        except wh.Timeout:
                            acc.count("cleanup_delays_released_because_server_waited", gate.release_all())
                    if ev is None:
                        raise wh.Timeout()
                else:
                    ev = await conn.next_event(6)
                got = None
                if ev[0] == "closed":
                    got = "refused"
                    acc.count("events.closed_%s" % ev[1])
                else:
                    t, verdict, payload = wh.decode_reply(ev[1])
                    want_type = {"c": "config", "u": "upload_edb", "s": "result"}.get(sym[0])
                    if t != want_type and sym not in ("un",):
                        trace.append([sym, ["unexpected-message", t, verdict]])
                        viol("unexpected-message", f"after {sym} a message of type {t!r} ({verdict}) arrived; "
                                                   f"expected a reply of type {want_type!r}")
                        return
                    if verdict == "refused":
                        got = "refused"
                        acc.count("events.refused_reply")
                        # the server closes the connection after a refusal; give it a moment, either is fine
                        try:
                            ev2 = await conn.next_event(0.3)
                            if ev2[0] != "closed":
                                viol("message-after-refusal", "a message followed a refusal reply")
                                return
                        except wh.Timeout:
                            pass
                    elif verdict == "ok":
                        got = "ok"
                        acc.count("events.ok")
                    elif verdict == "result":
                        table = fx.ids if which_tok == "kw" else {which_tok: fx.answers[which_tok]}
                        which = [k for k, v in table.items() if list(payload) == v]
                        got = ("result", which[0] if which else ("unknown-result", repr(payload)[:80]))
                        acc.count("events.result")
                        if sent_digest is not None and ev[1].get("token_digest") != sent_digest:
                            viol("token-digest-not-echoed", "the RESULT message does not carry the request's token digest")
                            return
                    else:
                        got = (verdict, t)
                if late and gate.pending():
                    # one delayed cleanup (the oldest) ends now, while the current connection is still open
                    if gate.release_one():
                        acc.count("cleanup_delays_released_one_by_one")
                        await asyncio.sleep(0.002)
                trace.append([sym, got if not isinstance(got, tuple) else list(got)])
                if got != expected:
                    viol(f"trace-mismatch:state{self._state_before(model, sym, expected)}:{sym}",
                         f"{sym} in model state {self._state_before(model, sym, expected)}: observed {got!r}, the "
                         f"reference model says {expected!r}")
                    return
            # final probe + quiescent-point invariant on disk
            await conn.close()
            if not await connect("final-probe"):
                return
            await conn.close()
            for _ in range(6):
                await wh.settle(10)
                if gate is not None:
                    gate.release_all()
            d = self.server.server_dir(sid)
            acc.count("disk_checks")
            if model.state >= 1:
                try:
                    on_disk = json.load(open(os.path.join(d, "config.json")))
                    meta = pickle.load(open(os.path.join(d, "service_meta"), "rb"))
                except Exception as e:
                    viol("disk-unreadable", f"stored service unreadable: {type(e).__name__}: {e}")
                    return
                if on_disk != getattr(fx, model.cfg):
                    viol("stored-config-replaced", f"config.json on disk is not the accepted configuration {model.cfg}")
                    return
                if meta.get("state") != model.state:
                    viol("stored-state-differs", f"service_meta says {meta.get('state')}, model {model.state}")
                    return
                if model.state == 2:
                    if open(os.path.join(d, "edb"), "rb").read() != fx.edb[model.edb]:
                        viol("stored-index-replaced", f"edb on disk is not the accepted index {model.edb}")
                        return
            else:
                if os.path.exists(os.path.join(d, "service_meta")):
                    viol("state-file-without-accepted-config", "a state file exists although no configuration was accepted")
                    return
            acc.add("distinct_traces", fp(trace))
            acc.add("distinct", fp(list(seq), gated))
            if self.n <= 2:
                acc.sample({"sequence": list(seq), "trace": trace})
        except wh.Timeout:
            acc.count("timeouts")
            acc.note(f"timeout waiting for the server in sequence {' '.join(seq)}")
        except Exception as e:
            acc.count("harness_errors")
            acc.note(f"harness error {exc_site(e)} {type(e).__name__}: {e} in {' '.join(seq)}")
        finally:
            if conn is not None:
                await conn.close()
            proxy.gate = None  # detach first: later sleepers must not wait on a gate nobody will release
            if gate is not None:
                gate.release_all()
                await wh.settle(4)
                gate.release_all()
            acc.count("cases")

    async def run_burst(self, prelude, burst):
        """prelude: requests made one by one (each reply awaited) on a first connection; burst: requests written
        back-to-back on a second connection. Model: the server handles one connection's messages in order and drops
        the connection at the first refused one, so the burst is accepted up to its first refusal. Replies may be
        lost when the connection is dropped; what must hold: no acknowledgement the model does not grant, and the
        state, the stored files and the search answer of the model afterwards."""
        acc, fx = self.acc, self.fx
        rng = self.ctx.rng
        sid = "%064x" % (rng.getrandbits(255) + 1)
        acc.count("bursts")
        model = Model()
        case = {"prelude": list(prelude), "burst": list(burst)}

        def viol(sig, msg):
            acc.violation("server:burst:" + sig, msg + f"  (prelude {' '.join(prelude) or '-'}; burst {' '.join(burst)})",
                          dict(case, sid=sid))

        def payload(sym):
            if sym in ("c1", "c2"):
                return "config", pickle.dumps(getattr(fx, sym)), {}
            if sym in ("u1", "u2"):
                return "upload_edb", fx.edb["e" + sym[1]], {}
            return "token", fx.token, {"token_digest": b"digest"}
        conn = None
        try:
            if prelude:
                conn = await wh.RawConn(self.server.uri, sid).open()
                for sym in prelude:
                    t, c, extra = payload(sym)
                    await conn.send(t, c, **extra)
                    exp = model.step(sym)
                    ev = await conn.next_event(6)
                    if exp != "ok" or ev[0] != "msg" or wh.decode_reply(ev[1])[1] != "ok":
                        acc.note("burst prelude not acknowledged")
                        return
                await conn.close()
                await wh.settle(6)
            conn = await wh.RawConn(self.server.uri, sid).open()
            if conn.init_state != model.state:
                viol("init-echo-state", f"told state {conn.init_state!r}, model {model.state}")
                return
            granted = {"config": 0, "upload_edb": 0, "result": 0}
            alive = True
            for sym in burst:
                acc.add("pairs_burst", f"{model.state}:{sym}")
                if alive:
                    exp = model.step(sym)
                    if exp == "refused":
                        alive = False     # the model's connection is dropped here; the rest is never handled
                    elif exp == "ok":
                        granted["config" if sym[0] == "c" else "upload_edb"] += 1
                    else:
                        granted["result"] += 1
            for sym in burst:               # one write per request, no read in between
                t, c, extra = payload(sym)
                try:
                    await conn.send(t, c, **extra)
                except Exception:
                    break
            seen = {"config": 0, "upload_edb": 0, "result": 0}
            results = []
            for _ in range(len(burst) + 1):
                try:
                    ev = await conn.next_event(0.5 if not alive else 3)
                except wh.Timeout:
                    break
                if ev[0] == "closed":
                    break
                t, verdict, pl = wh.decode_reply(ev[1])
                acc.count("burst_replies")
                if verdict == "ok" and t in seen:
                    seen[t] += 1
                elif verdict == "result":
                    seen["result"] += 1
                    results.append(pl)
            await conn.close()
            for t in seen:
                if seen[t] > granted[t]:
                    viol(f"acknowledged-more-than-accepted:{t}",
                         f"{seen[t]} positive '{t}' replies although the requests up to the first refusal grant {granted[t]}")
                    return
            for pl in results:
                if pl != fx.ids.get(model.edb):
                    viol("result-from-another-index", "a search in the burst was answered from another index than the "
                                                      "accepted one")
                    return
            await wh.settle(8)
            conn = await wh.RawConn(self.server.uri, sid).open()
            if conn.init_state != model.state:
                viol("state-after-burst", f"afterwards a new connection is told state {conn.init_state!r}; the requests "
                                          f"accepted up to the first refusal imply {model.state}")
                return
            if model.state == 2:
                await conn.send("token", fx.token, token_digest=b"digest")
                ev = await conn.next_event(6)
                ok = ev[0] == "msg" and wh.decode_reply(ev[1])[1] == "result" and \
                    wh.decode_reply(ev[1])[2] == fx.ids[model.edb]
                if not ok:
                    viol("search-after-burst", f"afterwards a search is not answered from the accepted index {model.edb}")
                    return
            await conn.close()
            await wh.settle(8)
            d = self.server.server_dir(sid)
            if model.state >= 1:
                on_disk = json.load(open(os.path.join(d, "config.json")))
                if on_disk != getattr(fx, model.cfg):
                    viol("stored-config-replaced", f"config.json is not the accepted configuration {model.cfg}")
                    return
                if model.state == 2 and open(os.path.join(d, "edb"), "rb").read() != fx.edb[model.edb]:
                    viol("stored-index-replaced", f"the stored index is not the accepted one ({model.edb})")
                    return
            acc.add("distinct", fp("burst", list(prelude), list(burst)))
        except wh.Timeout:
            acc.count("timeouts")
            acc.note(f"timeout in burst {' '.join(prelude)} | {' '.join(burst)}")
        except Exception as e:
            acc.count("harness_errors")
            acc.note(f"harness error {exc_site(e)} {type(e).__name__}: {e} in burst {' '.join(burst)}")
        finally:
            if conn is not None:
                await conn.close()
            acc.count("cases")

    @staticmethod
    def _state_before(model, sym, expected):
        # the model has already stepped; reconstruct the pre-state for the signature
        if sym[0] == "c":
            return 0 if expected == "ok" else model.state
        if sym[0] == "u":
            return 1 if expected == "ok" else model.state
        return model.state


async def amain(spec, acc, ctx, virtual=True):
    wh.setup_env(virtual_sleep=virtual)
    server = await wh.Server().start()
    fx = Fixture(ctx.rng)
    acc.add("fixture_schemes", fx.scheme)
    r = Runner(acc, ctx, server, fx)
    kind = spec["kind"]
    if kind == "exh":
        pre = spec["prefix"]
        if len(pre) <= spec["depth"]:
            for L in ([spec["depth"]] if spec.get("exact_len") else range(len(pre), spec["depth"] + 1)):
                for rest in itertools.product(SYMS, repeat=L - len(pre)):
                    if ctx.out_of_time() or acc.counters.get("timeouts", 0) > 3 or acc.n_violations > 25:
                        acc.note("exhaustive enumeration cut (time budget / repeated timeouts / many violations)")
                        acc.count("exhaustive_incomplete")
                        await server.stop()
                        return
                    await retry_on_timeout(acc, lambda: r.run_sequence(pre + list(rest), gated=False))
                    sq = pre + list(rest)
                    if "re" in sq or any(x in ("c1", "c2", "u1", "u2", "un") for x in sq):
                        await retry_on_timeout(acc, lambda: r.run_sequence(sq, gated=True))
                    if any(a == "re" and b in ("c1", "c2", "u1", "u2", "s") for a, b in zip(sq, sq[1:])) and \
                            any(x in ("c1", "u1", "u2", "c2") for x in sq[:sq.index("re")]):
                        await retry_on_timeout(acc, lambda: r.run_sequence(sq, gated="late"))
        acc.add("exhaustive_prefixes", "".join(pre))
    elif kind == "unstorable":
        al = ["cx", "c1", "u1", "s", "re", "rs"]
        for L in range(2, spec["length"] + 1):
            for rest in itertools.product(al, repeat=L - 1):
                sq = [spec["first"]] + list(rest)
                if "cx" not in sq:
                    continue
                if ctx.out_of_time() or acc.counters.get("timeouts", 0) > 3 or acc.n_violations > 25:
                    acc.count("unstorable_incomplete")
                    await server.stop()
                    return
                await retry_on_timeout(acc, lambda: r.run_sequence(sq, gated=False))
                if "rs" not in sq and "re" in sq:
                    await retry_on_timeout(acc, lambda: r.run_sequence(sq, gated=True))
                acc.count("unstorable_sequences")
        acc.add("unstorable_prefixes", spec["first"])
    elif kind == "restart":
        for rest in itertools.product(PSYMS + ["rs"], repeat=spec["length"] - 1):
            sq = [spec["first"]] + list(rest)
            if "rs" not in sq:
                continue
            if ctx.out_of_time() or acc.counters.get("timeouts", 0) > 3 or acc.n_violations > 25:
                acc.count("restart_incomplete")
                await server.stop()
                return
            await retry_on_timeout(acc, lambda: r.run_sequence(sq, gated=False))
            acc.count("restart_sequences")
        acc.add("restart_prefixes", spec["first"])
    elif kind == "burst":
        for prelude in ([], ["c1"], ["c1", "u1"]):
            for L in range(2, spec["depth"] + 1):
                for rest in itertools.product(PSYMS, repeat=L - 1):
                    if ctx.out_of_time() or acc.counters.get("timeouts", 0) > 3 or acc.n_violations > 25:
                        acc.count("burst_incomplete")
                        await server.stop()
                        return
                    await retry_on_timeout(acc, lambda: r.run_burst(prelude, [spec["first"]] + list(rest)))
        acc.add("burst_prefixes", spec["first"])
    elif kind == "rand":
        for i in range(spec["sequences"]):
            if ctx.out_of_time() or acc.counters.get("timeouts", 0) > 3 or acc.n_violations > 25:
                break
            n = ctx.rng.randint(4, 12) if i % 5 else ctx.rng.randint(20, 40)   # every fifth: a long conversation
            sq = [ctx.rng.choice(SYMS + ["cx"] + (["rs"] if i % 3 == 0 else [])) for _ in range(n)]
            if n >= 20:
                acc.count("long_sequences")
                sq = ["c1"] + sq[:5] + ["u1"] + sq[5:]
            await retry_on_timeout(acc, lambda: r.run_sequence(sq, gated=[False, True, "late"][i % 3]))
    await server.stop()


def run_shard(spec, acc, ctx):
    if spec["kind"] == "realtime":
        # a sample with the real (unpatched) 1 s cleanup sleep: the virtualisation must not change what is observed
        async def rt():
            wh.setup_env(virtual_sleep=False)
            server = await wh.Server().start()
            fx = Fixture(ctx.rng)
            r = Runner(acc, ctx, server, fx)
            for seq in (["c1", "u1", "s"], ["c1", "re", "u1", "re", "s", "u2", "s"], ["u1", "c1", "c2", "u2", "u1", "s"],
                        ["s", "un", "c2", "fo", "u1", "s"]):
                await r.run_sequence(seq)
                acc.count("realtime_sequences")
            await server.stop()
        asyncio.run(rt())
        return
    asyncio.run(amain(spec, acc, ctx))


def replay(case, acc, ctx):
    async def go():
        wh.setup_env()
        server = await wh.Server().start()
        r = Runner(acc, ctx, server, Fixture(ctx.rng))
        if "burst" in case:
            await r.run_burst(case["prelude"], case["burst"])
            await server.stop()
            return
        await r.run_sequence(case["sequence"], gated=False)
        await r.run_sequence(case["sequence"], gated=True)
        await r.run_sequence(case["sequence"], gated="late")
        await server.stop()
    asyncio.run(go())
    acc.count("replayed")


def finish(m, tier, seed):
    c = m["counters"]
    inc = []
    depth = 4 if tier == "quick" else 5
    want_pref = len(SYMS) ** 2 + len(SYMS) + (len(SYMS) ** 2 if tier == "thorough" else 0)
    exhaustive = len(m["sets"].get("exhaustive_prefixes", [])) == want_pref and not c.get("exhaustive_incomplete")
    if not exhaustive:
        inc.append("the exhaustive enumeration did not complete")
    if len(m["sets"].get("unstorable_prefixes", [])) < 6 or c.get("unstorable_incomplete"):
        inc.append("the enumeration of sequences with an unstorable configuration did not complete")
    if len(m["sets"].get("restart_prefixes", [])) < len(PSYMS) + 1 or c.get("restart_incomplete"):
        inc.append("the enumeration of sequences with a server restart did not complete")
    for k in ("search_requests.other", "search_requests.absent", "search_requests.digest-omitted",
              "search_requests.digest-sha256"):
        if c.get(k, 0) < 50:
            inc.append(f"only {c.get(k, 0)} {k}")
    if len(m["sets"].get("burst_prefixes", [])) < len(PSYMS) or c.get("burst_incomplete"):
        inc.append("the burst enumeration did not complete")
    pairs = set(m["sets"].get("pairs", []))
    need = {f"{s}:{x}" for s in (0, 1, 2) for x in SYMS}
    if not need <= pairs:
        inc.append(f"model state x message pairs never exercised: {sorted(need - pairs)}")
    if c.get("timeouts", 0) or c.get("harness_errors", 0):
        inc.append(f"{c.get('timeouts', 0)} timeouts, {c.get('harness_errors', 0)} harness errors")
    if c.get("events.result", 0) < 20 or c.get("events.ok", 0) < 50:
        inc.append("too few positive replies observed")
    cov = {
        "evaluations": c.get("cases", 0),
        "distinct_nontrivial": len(m["sets"].get("distinct", [])),
        "rule": f"all sequences over the 8 message kinds {SYMS} of length <= {depth} on a fresh sid each, plus seeded "
                "random sequences of length 4..12; every sequence ends with a probe connection and a comparison of the "
                "stored files with the accepted ones; non-trivial = the sequence ran to its end and its trace was "
                "compared with the 3-state model; distinct = distinct message sequences.",
        "exhaustive": bool(exhaustive),
        "exhaustive_depth": depth,
        "additionally_all_length_6_sequences_starting_with": "c1" if tier == "thorough" else None,
        "messages": c.get("messages", 0),
        "distinct_traces": len(m["sets"].get("distinct_traces", [])),
        "model_state_x_message_pairs_seen": len(pairs & need),
        "disk_checks": c.get("disk_checks", 0),
        "sid_shapes": sorted(m["sets"].get("sid_shapes", [])),
        "service_schemes": sorted(m["sets"].get("fixture_schemes", [])),
        "unknown_message_types_sent": sorted(m["sets"].get("unknown_types", [])),
        "foreign_sid_messages": c.get("foreign_sid_messages", 0),
        "sequences_with_reconnect_inside_cleanup_delay": c.get("sequences.gated", 0),
        "sequences_with_reconnect_after_cleanup": c.get("sequences.ungated", 0),
        "sequences_with_cleanup_delay_outliving_the_reconnect": c.get("sequences.gated-late", 0),
        "realtime_sequences": c.get("realtime_sequences", 0),
        "bursts_written_without_waiting_for_replies": c.get("bursts", 0),
        "burst_replies_observed": c.get("burst_replies", 0),
    }
    return {"coverage": cov, "inconclusive": inc,
            "assumptions": ["the 1 s cleanup delay is virtualised by a module-local asyncio proxy (thorough also runs a "
                            "real-time sample)", "a refusal is observed as an {'ok': False} reply or as the server "
                                                 "closing the connection without a positive reply"]}
