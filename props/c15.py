"""C15 - pseudo-random permutations are length-preserving bijections with inverses.

Monitor shape: exhaustive bijection check of the real BitwiseFFX / BitwiseFPEPRP on {0,1}^n for n = 2..12,
inverse + length checks on random wide inputs (to 2100 bits, around multiples of the 160-bit digest),
exhaustive injectivity of the Luby-Rackoff PRP on all 65 536 two-byte messages, sampled injectivity for
4..64-byte messages, length contracts, and an in-situ hook on the PRP instances of SSE-1 / SSE-2 while the
real EDBSetup runs (addresses must be collision-free and in range), and "hostile callers": one object shared across
keys held in a reused bytearray, alternating keys, refused calls followed by valid ones (reference: fresh objects).
"""
from vlib.common import fp, exc_site

LEVEL = "exploration"
SHARD_TIMEOUT = {"quick": 300, "thorough": 2400}


def plan(tier, seed):
    specs = []
    keys_small = 4 if tier == "quick" else 60
    keys_big = 2 if tier == "quick" else 24
    for n in range(2, 11):
        specs.append({"name": f"ffx-exh-n{n}", "kind": "ffx_exh", "n": n, "keys": keys_small})
    for n in (11, 12):
        for k in range(keys_big):
            specs.append({"name": f"ffx-exh-n{n}-k{k}", "kind": "ffx_exh", "n": n, "keys": 1, "index": k})
    nr = 5 if tier == "quick" else 12
    for i in range(nr):
        specs.append({"name": f"ffx-rand{i}", "kind": "ffx_rand", "index": i,
                      "cases": 400 if tier == "quick" else 40000, "budget_s": 90 if tier == "quick" else 420})
    for k in range(1 if tier == "quick" else 24):
        specs.append({"name": f"lr-exh{k}", "kind": "lr_exh", "index": k})
    for i in range(3 if tier == "quick" else 8):
        specs.append({"name": f"lr-rand{i}", "kind": "lr_rand", "index": i, "sets": 6 if tier == "quick" else 400})
    for i in range(3 if tier == "quick" else 12):
        specs.append({"name": f"ffx-shared-object{i}", "kind": "ffx_shared", "index": i})
    specs.append({"name": "contracts", "kind": "contracts"})
    specs.append({"name": "shared-by-threads", "kind": "threads", "primitive_monitors": False,
                  "rounds": 2 if tier == "quick" else 40, "budget_s": 90 if tier == "quick" else 400})
    for i in range(2 if tier == "quick" else 8):
        specs.append({"name": f"hostile-callers{i}", "kind": "hostile", "index": i,
                      "rounds": 12 if tier == "quick" else 400})
    for i in range(2 if tier == "quick" else 8):
        specs.append({"name": f"insitu{i}", "kind": "insitu", "index": i, "rounds": 3 if tier == "quick" else 150})
    specs = both_interpreter_modes_(specs)
    # ONE PRP / cipher object asked for more distinct inputs than any memo holds (2^16 + 500 counters of 20 bits, then the
    # first ones again): still a permutation, still the same answers, decrypt still inverts
    specs.append({"name": "one-object-70000-inputs-prp", "kind": "long_life", "what": "prp", "python_O": False})
    specs.append({"name": "one-object-70000-inputs-ffx", "kind": "long_life", "what": "ffx", "python_O": True})
    return specs


def both_interpreter_modes_(specs):
    from vlib.common import both_interpreter_modes
    return both_interpreter_modes(specs)


_HB = []


def HashableBits(value, length):
    """A caller-side subclass of the library's Bitset (adds __hash__); built lazily because toolkit is imported late."""
    if not _HB:
        from toolkit.bits import Bitset

        class _HashableBits(Bitset):
            def __hash__(self):
                return hash((self.value, self.length))
        _HB.append(_HashableBits)
    return _HB[0](value, length)


def long_life(spec, acc, ctx):
    from toolkit.bits import Bitset
    import toolkit.prp as prp_mod
    from toolkit.symmetric_encryption.fpe import BitwiseFFX
    rng = ctx.rng
    n, total, again = 20, (1 << 16) + 500, 400
    key = rng.randbytes(16)
    if spec["what"] == "prp":
        obj = prp_mod.get_prp_implementation("BitwiseFPEPRP")(message_bit_length=n, key_bit_length=128)
        K = Bitset(key, 128)
        call = lambda x: int(obj(K, Bitset(x, n)))     # noqa: E731
    else:
        obj = BitwiseFFX()
        call = lambda x: int(obj.encrypt(key, Bitset(x, n)))     # noqa: E731
    first = {}
    images = set()
    for x in range(total):
        y = call(x)
        if x < again:
            first[x] = y
        images.add(y)
    acc.count("long_life.calls", total)
    acc.count("cases")
    case = {"what": spec["what"], "n": n, "inputs": total}
    if len(images) != total:
        acc.violation(f"{spec['what']}:long-life:not-injective", f"{total} distinct {n}-bit inputs on one object gave "
                                                                 f"{len(images)} distinct images", case)
        return
    bad = [x for x in range(again) if call(x) != first[x]]
    acc.count("long_life.revisited", again)
    if bad:
        acc.violation(f"{spec['what']}:long-life:answer-changed",
                      f"after {total} distinct inputs on one object, {len(bad)} of the first {again} inputs get another "
                      f"image than before (e.g. input {bad[0]})", case)
        return
    if spec["what"] == "ffx":
        wrong = [x for x in range(0, again, 7) if int(obj.decrypt(key, Bitset(first[x], n))) != x]
        if wrong:
            acc.violation("ffx:long-life:inverse", f"decrypt no longer inverts encrypt for {len(wrong)} early inputs", case)
            return
    acc.add("distinct", fp("long-life", spec["what"]))
    acc.add("long_life_done", spec["what"])


def run_shard(spec, acc, ctx):
    try:
        _run_shard(spec, acc, ctx)
    except Exception as e:
        # every call the workload makes is inside the declared domain of the primitive (the contract shard
        # catches its own expected refusals), so an exception escaping from it refutes "is a permutation"
        acc.violation("prp:raised:" + exc_site(e), f"{spec['kind']}: {type(e).__name__}: {e}", {"shard": spec["name"]})


def _run_shard(spec, acc, ctx):
    from toolkit.bits import Bitset
    from toolkit.symmetric_encryption.fpe import BitwiseFFX
    import toolkit.prp as prp_mod
    rng = ctx.rng
    kind = spec["kind"]
    if kind == "long_life":
        long_life(spec, acc, ctx)
        return
    if kind == "ffx_exh":
        n = spec["n"]
        ffx = BitwiseFFX()
        fpe_cls = prp_mod.get_prp_implementation("BitwiseFPEPRP")
        for ki in range(spec["keys"]):
            key = rng.randbytes(rng.choice([16, 24, 32]))
            image = set()
            use_prp = (ki % 2 == 1)
            prp = fpe_cls(message_bit_length=n, key_bit_length=len(key) * 8)
            for x in range(1 << n):
                # every third key: the caller's bit strings are instances of its own SUBCLASS of Bitset (hashable, so
                # that they can be kept in sets) - they are n-bit strings like any other
                xb = HashableBits(x, n) if ki % 3 == 2 else Bitset(x, n)
                if ki % 3 == 2:
                    acc.count("ffx.inputs_of_a_bitset_subclass")
                y = prp(Bitset(key, len(key) * 8), xb) if use_prp else ffx.encrypt(key, xb)
                acc.count("ffx.encrypt")
                if len(y) != n or not (0 <= int(y) < (1 << n)):
                    acc.violation("ffx:length", f"n={n}: output length {len(y)} value {int(y)}",
                                  {"n": n, "key": key, "x": x})
                    continue
                image.add(int(y))
                back = ffx.decrypt(key, y)
                acc.count("ffx.decrypt")
                if int(back) != x or len(back) != n:
                    acc.violation("ffx:inverse", f"n={n}: decrypt(encrypt(x)) = {int(back)} (len {len(back)})",
                                  {"n": n, "key": key, "x": x})
            acc.count("ffx.bijection_checks")
            if len(image) != (1 << n):
                acc.violation("ffx:not-bijective", f"n={n}: image has {len(image)} of {1 << n} values",
                              {"n": n, "key": key})
            acc.count("cases")
            acc.add("distinct", fp("e", n, key))
        acc.add("exhaustive_n", n)
        acc.sample({"kind": "exhaustive", "n": n, "keys": spec["keys"], "inputs_per_key": 1 << n})
    elif kind == "ffx_shared":
        # ONE cipher object and ONE key used at many widths in descending / ascending / shuffled order: the
        # permutation at width n must not depend on what the object was used for before
        for order_name in ("descending", "ascending", "shuffled"):
            ffx = BitwiseFFX()
            prps = {}
            key = rng.randbytes(rng.choice([16, 24, 32]))
            widths = list(range(2, 11)) + [13, 16, 21]
            if order_name == "descending":
                widths.sort(reverse=True)
            elif order_name == "shuffled":
                rng.shuffle(widths)
            for n in widths:
                xs = range(1 << n) if n <= 10 else [rng.getrandbits(n) for _ in range(300)] + [0, (1 << n) - 1]
                image = set()
                for x in xs:
                    y = ffx.encrypt(key, Bitset(x, n))
                    acc.count("ffx.encrypt")
                    if len(y) != n or not (0 <= int(y) < (1 << n)):
                        acc.violation(f"ffx:length:shared-object-{order_name}",
                                      f"n={n} ({order_name} widths on one cipher object): output has {len(y)} bits",
                                      {"n": n, "key": key, "x": x, "widths_before": widths[:widths.index(n)]})
                        break
                    image.add(int(y))
                    back = ffx.decrypt(key, y)
                    acc.count("ffx.decrypt")
                    if int(back) != x or len(back) != n:
                        acc.violation(f"ffx:inverse:shared-object-{order_name}", f"n={n}: decrypt(encrypt(x)) != x",
                                      {"n": n, "key": key, "x": x, "widths_before": widths[:widths.index(n)]})
                        break
                else:
                    acc.count("ffx.bijection_checks")
                    if n <= 10 and len(image) != (1 << n):
                        acc.violation(f"ffx:not-bijective:shared-object-{order_name}",
                                      f"n={n}: image has {len(image)} of {1 << n} values", {"n": n, "key": key})
                acc.count("cases")
                acc.add("distinct", fp("sh", spec["index"], order_name, n))
            acc.add("shared_object_orders", order_name)
    elif kind == "ffx_rand":
        ffx = BitwiseFFX()
        fpe_cls = prp_mod.get_prp_implementation("bitwise-fpe-prp")
        for i in range(spec["cases"]):
            if ctx.out_of_time():
                break
            n = rng.choice([rng.randint(2, 64), rng.randint(13, 400), rng.randint(13, 2100),
                            rng.choice([159, 160, 161, 319, 320, 321, 479, 480, 481, 639, 640, 641, 2099, 2100,
                                        13, 15, 16, 17, 31, 32, 33, 63, 64, 65, 255, 256, 257])])
            key = rng.randbytes(rng.choice([16, 24, 32]))
            x = rng.choice([rng.getrandbits(n), 0, (1 << n) - 1, 1, 1 << (n - 1)])
            xb = Bitset(x, n)
            if i % 2:
                y = fpe_cls(message_bit_length=n, key_bit_length=len(key) * 8)(Bitset(key, len(key) * 8), xb)
            else:
                y = ffx.encrypt(key, xb)
            acc.count("ffx.encrypt")
            acc.add("ffx_widths", n)
            nclass = "odd" if n % 2 else "even"
            if len(y) != n or not (0 <= int(y) < (1 << n)):
                acc.violation(f"ffx:length:{nclass}", f"n={n}: output length {len(y)}", {"n": n, "key": key, "x": x})
                continue
            back = ffx.decrypt(key, y)
            acc.count("ffx.decrypt")
            if int(back) != x or len(back) != n:
                acc.violation(f"ffx:inverse:{nclass}", f"n={n}: decrypt(encrypt(x)) != x", {"n": n, "key": key, "x": x})
            y2 = ffx.encrypt(key, Bitset(x, n))
            if int(y2) != int(y):
                acc.violation("ffx:nondeterministic", "two encryptions differ", {"n": n, "key": key, "x": x})
            # a second, different input must map elsewhere (injectivity on a pair)
            x2 = x ^ (1 << rng.randrange(n))
            y3 = ffx.encrypt(key, Bitset(x2, n))
            acc.count("ffx.pair_injective")
            if int(y3) == int(y):
                acc.violation(f"ffx:collision:{nclass}", "two inputs differing in one bit collide",
                              {"n": n, "key": key, "x": x, "x2": x2})
            acc.count("cases")
            acc.add("distinct", fp("r", n, key, x))
            if i == 0:
                acc.sample({"kind": "random", "n": n, "x": x})
    elif kind == "lr_exh":
        cls = prp_mod.get_prp_implementation("HmacLubyRackoffPRP")
        klen = rng.choice([3, 24, 48, 96])
        prp = cls(message_length=2, key_length=klen, hash_func_name=rng.choice(["sha1", "sha256"]))
        key = rng.randbytes(klen)
        image = set()
        for x in range(65536):
            m = x.to_bytes(2, "big")
            y = prp(key, m)
            acc.count("lr.calls")
            if len(y) != 2:
                acc.violation("lr:length", f"output length {len(y)} for a 2-byte message", {"key": key, "m": m})
            image.add(y)
        acc.count("lr.bijection_checks")
        if len(image) != 65536:
            acc.violation("lr:not-injective-2byte", f"image of all 2-byte messages has {len(image)} elements",
                          {"key": key, "klen": klen})
        acc.count("cases")
        acc.add("distinct", fp("lre", key))
        acc.add("lr_exhaustive", "2-byte")
        acc.sample({"kind": "luby-rackoff exhaustive", "message_length": 2, "key_length": klen})
    elif kind == "lr_rand":
        for s in range(spec["sets"]):
            name = rng.choice(["HmacLubyRackoffPRP", "hmac-luby-rackoff-prp", "hmac_luby_rackoff_prp"])
            cls = prp_mod.get_prp_implementation(name)
            mlen = rng.choice([4, 6, 8, 16, 20, 32, 40, 64, 2 * rng.randint(2, 32)])
            klen = 3 * rng.choice([1, 8, 16, 32])
            prp = cls(message_length=mlen, key_length=klen)
            key = rng.randbytes(klen)
            base = rng.randbytes(mlen)
            msgs = {base}
            # structured set: differ only in the left half / only in the right half / random
            for j in range(1500):
                b = bytearray(base)
                r = rng.random()
                if r < 0.4:
                    b[rng.randrange(mlen // 2)] = rng.randrange(256)
                elif r < 0.8:
                    b[mlen // 2 + rng.randrange(mlen // 2)] = rng.randrange(256)
                else:
                    b = bytearray(rng.randbytes(mlen))
                msgs.add(bytes(b))
            image = {}
            for m in msgs:
                y = prp(key, m)
                acc.count("lr.calls")
                if len(y) != mlen:
                    acc.violation("lr:length", f"output length {len(y)} for {mlen}", {"key": key, "m": m})
                if y in image and image[y] != m:
                    acc.violation("lr:collision", "two messages map to one output",
                                  {"key": key, "a": m, "b": image[y]})
                image[y] = m
            if prp(key, base) != prp(key, base):
                acc.violation("lr:nondeterministic", "two calls differ", {"key": key, "m": base})
            acc.add("lr_message_lengths", mlen)
            acc.count("lr.sets")
            acc.count("cases")
            acc.add("distinct", fp("lrs", key, base))
    elif kind == "contracts":
        def expect(name, fn, exc=ValueError):
            acc.count("contract." + name)
            try:
                r = fn()
            except exc:
                return
            except Exception as e:
                acc.violation("prp:contract:" + name, f"raised {type(e).__name__}: {e}", {"contract": name})
                return
            acc.violation("prp:contract:" + name, f"accepted (returned {r!r:.60})", {"contract": name})

        for bad in ("", "prp", "AES-CBC", "luby"):
            expect("unknown-name", lambda: prp_mod.get_prp_implementation(bad))
        fpe_cls = prp_mod.get_prp_implementation("BitwiseFPEPRP")
        for n in (2, 7, 8, 16, 33):
            for kb in (128, 192, 256):
                prp = fpe_cls(message_bit_length=n, key_bit_length=kb)
                key = Bitset(rng.getrandbits(kb), kb)
                for d in (-1, 1):
                    expect("fpe-message-length", lambda: prp(key, Bitset(0, n + d)))
                    expect("fpe-key-length", lambda: prp(Bitset(0, kb + d), Bitset(0, n)))
                acc.count("cases")
                acc.add("distinct", fp("c", n, kb))
        # key widths that are not whole bytes (the declared domain is a BIT length): a key with its top bit set is a
        # valid key; the PRP must permute the whole n-bit domain under it and refuse keys one bit longer or shorter
        for kb in (1, 7, 9, 63, 65, 100, 127, 129, 190, 255, 257):
            for n in (2, 5, 8, 11):
                try:
                    prp = fpe_cls(message_bit_length=n, key_bit_length=kb)
                except Exception as e:
                    acc.count("prp.odd_key_width_refused_by_constructor")
                    acc.note(f"BitwiseFPEPRP(key_bit_length={kb}) refused by the constructor: {type(e).__name__}")
                    continue
                key = Bitset(rng.getrandbits(kb) | (1 << (kb - 1)), kb)
                acc.count("prp.odd_key_width_domains")
                try:
                    outs = [prp(key, Bitset(x, n)) for x in range(1 << n)]
                except Exception as e:
                    acc.violation(f"prp:odd-key-width-raised:{exc_site(e)}",
                                  f"BitwiseFPEPRP with key_bit_length={kb}, n={n}: a valid key (top bit set) and a valid "
                                  f"message raised {type(e).__name__}: {e}", {"key_bits": kb, "n": n})
                    continue
                if any(len(o) != n for o in outs) or len({int(o) for o in outs}) != (1 << n):
                    acc.violation("prp:odd-key-width-not-a-permutation",
                                  f"BitwiseFPEPRP with key_bit_length={kb}, n={n}: the outputs are not a permutation of the "
                                  f"{1 << n} n-bit strings", {"key_bits": kb, "n": n})
                if [int(prp(key, Bitset(x, n))) for x in range(1 << n)] != [int(o) for o in outs]:
                    acc.violation("prp:odd-key-width-nondeterministic", f"kb={kb} n={n}", {"key_bits": kb, "n": n})
                for d in (-1, 1):
                    if kb + d >= 1:
                        expect("fpe-key-length", lambda: prp(Bitset(0, kb + d), Bitset(0, n)))
                acc.count("cases")
                acc.add("distinct", fp("okw", n, kb))
        lr = prp_mod.get_prp_implementation("HmacLubyRackoffPRP")
        for ml in (1, 3, 5, 7, 33):
            expect("lr-odd-message-length", lambda: lr(message_length=ml, key_length=24))
        for kl in (1, 2, 4, 16, 25, 32):
            expect("lr-key-not-div-3", lambda: lr(message_length=8, key_length=kl))
        prp = lr(message_length=8, key_length=24)
        for d in (-2, -1, 1, 2):
            expect("lr-call-message-length", lambda: prp(bytes(24), bytes(8 + d)))
            expect("lr-call-key-length", lambda: prp(bytes(24 + d), bytes(8)))
        from toolkit.prp.luby_rackoff_prp import LubyRackoffPRP
        from toolkit.prf.hmac_prf import HmacPRF
        expect("lr-prf-key-mismatch", lambda: LubyRackoffPRP(message_length=8, key_length=24, underlying_prf=HmacPRF(
            output_length=4, message_length=4, key_length=7)))
        expect("lr-prf-io-mismatch", lambda: LubyRackoffPRP(message_length=8, key_length=24, underlying_prf=HmacPRF(
            output_length=5, message_length=4, key_length=8)))
        expect("lr-prf-half-mismatch", lambda: LubyRackoffPRP(message_length=8, key_length=24, underlying_prf=HmacPRF(
            output_length=3, message_length=3, key_length=8)))
    elif kind == "insitu":
        insitu(spec, acc, ctx)
    elif kind == "hostile":
        hostile(spec, acc, ctx)
    elif kind == "threads":
        threads(spec, acc, ctx)


def threads(spec, acc, ctx):
    """One FFX cipher, one bit-PRP and one Luby-Rackoff PRP object, each shared by four threads that use different
    keys, with a thread switch forced at every third statement of the toolkit: every thread must see exactly the
    permutation a fresh object computes for its key (tables built single-threaded beforehand)."""
    import os
    import threading
    from toolkit.bits import Bitset
    from toolkit.symmetric_encryption.fpe import BitwiseFFX
    import toolkit.prp as prp_mod
    from vlib import instrument
    rng = ctx.rng
    repo = os.environ.get("VERIF_REPO", "/repo")
    lr_cls = prp_mod.get_prp_implementation("HmacLubyRackoffPRP")
    fpe_cls = prp_mod.get_prp_implementation("BitwiseFPEPRP")
    for rnd in range(spec["rounds"]):
        if ctx.out_of_time():
            break
        n = rng.randint(3, 4)
        kl = rng.choice([16, 24, 32])
        keys = [rng.randbytes(kl) for _ in range(4)]
        ref_ffx = [[int(BitwiseFFX().encrypt(k, Bitset(x, n))) for x in range(1 << n)] for k in keys]
        mlen, klen = 4, 24
        lkeys = [rng.randbytes(klen) for _ in range(4)]
        lmsgs = [rng.randbytes(mlen) for _ in range(12)]
        ref_lr = [[lr_cls(message_length=mlen, key_length=klen)(k, m) for m in lmsgs] for k in lkeys]
        ffx = BitwiseFFX()
        prp = fpe_cls(message_bit_length=n, key_bit_length=kl * 8)
        lr = lr_cls(message_length=mlen, key_length=klen)
        bad = []
        done = [0]
        stop = threading.Event()

        def worker(i):
            def go():
                for x in list(range(1 << n)) * 2:
                    if stop.is_set():
                        return
                    try:
                        y = int(ffx.encrypt(keys[i], Bitset(x, n)))
                        back = int(ffx.decrypt(keys[i], Bitset(ref_ffx[i][x], n)))
                        y2 = int(prp(Bitset(keys[i], kl * 8), Bitset(x, n)))
                    except Exception as e:
                        bad.append(("ffx", i, repr(e)[:80]))
                        stop.set()
                        return
                    if y != ref_ffx[i][x] or back != x or y2 != ref_ffx[i][x]:
                        bad.append(("ffx", i, f"x={x}: encrypt {y} / bit-PRP {y2}, a fresh object gives {ref_ffx[i][x]}; "
                                              f"decrypt gives {back}"))
                        stop.set()
                        return
                    done[0] += 1
                for j, m in enumerate(lmsgs):
                    if stop.is_set():
                        return
                    try:
                        out = lr(lkeys[i], m)
                    except Exception as e:
                        out = repr(e)
                    if out != ref_lr[i][j]:
                        bad.append(("lr", i, f"message {j}: {out!r:.40} instead of the fresh object's output"))
                        stop.set()
                        return
                    done[0] += 1
            return go
        with instrument.YieldInjector(repo, every=5) as yi:
            errs = instrument.run_threads([worker(i) for i in range(4)], timeout=80)
        acc.count("threads.calls_compared", done[0])
        acc.count("threads.forced_switch_points", yi.yields)
        acc.count("cases")
        acc.add("distinct", fp("threads", rnd))
        if any(isinstance(e, TimeoutError) for e in errs):
            acc.count("threads.watchdog")
            acc.note("thread workload hit its watchdog")
        if bad:
            which, i, what = bad[0]
            acc.violation(f"{'ffx' if which == 'ffx' else 'lr'}:wrong-when-shared-by-threads",
                          f"four threads share one {'FFX cipher / bit-PRP' if which == 'ffx' else 'Luby-Rackoff PRP'} "
                          f"object, each with its own key: thread {i}: {what}", {"n": n, "threads": True, "hostile": True})
            return


def hostile(spec, acc, ctx):
    """One cipher / PRP object shared by a caller that (a) keeps its key in ONE bytearray and overwrites it in place
    when it switches keys, (b) alternates between keys, (c) makes a refused call (wrong key or message length) and
    then goes on with valid ones.  Reference: a fresh object per (key, width) fed immutable bytes."""
    from toolkit.bits import Bitset
    from toolkit.symmetric_encryption.fpe import BitwiseFFX
    import toolkit.prp as prp_mod
    rng = ctx.rng
    lr_cls = prp_mod.get_prp_implementation("HmacLubyRackoffPRP")
    fpe_cls = prp_mod.get_prp_implementation("BitwiseFPEPRP")
    for rnd in range(spec["rounds"]):
        if ctx.out_of_time():
            break
        acc.count("cases")
        acc.add("distinct", fp("h", spec["index"], rnd))
        # ---------------- FFX: one object, one key buffer
        n = rng.randint(2, 7)
        kl = rng.choice([16, 24, 32])
        k1, k2 = rng.randbytes(kl), rng.randbytes(kl)
        ref = {k: [int(BitwiseFFX().encrypt(k, Bitset(x, n))) for x in range(1 << n)] for k in (k1, k2)}
        case = {"n": n, "k1": k1, "k2": k2, "hostile": True}
        ffx = BitwiseFFX()
        kbuf = bytearray(k1)
        acc.count("hostile.ffx_reused_key_buffer")
        try:
            seq = [k1, k2, k1, k2, k2, k1]
            bad = None
            for step, k in enumerate(seq):
                kbuf[:] = k
                xs = list(range(1 << n))
                if step % 2:
                    rng.shuffle(xs)
                got = {x: int(ffx.encrypt(kbuf, Bitset(x, n))) for x in xs[:max(2, len(xs) // (1 + step % 3))]}
                if bytes(kbuf) != k:
                    bad = ("key-buffer-mutated", f"step {step}: the cipher changed the caller's key buffer")
                    break
                wrong = [x for x, y in got.items() if y != ref[k][x]]
                if wrong:
                    bad = ("reused-key-buffer", f"step {step} of keys {['k1' if q == k1 else 'k2' for q in seq]}: with the "
                                                f"key held in one bytearray that is overwritten in place, encrypt gives "
                                                f"{len(wrong)} of {len(got)} values that differ from a fresh object's "
                                                f"permutation under the buffer's current content (n={n})")
                    break
                x0 = xs[0]
                if int(ffx.decrypt(kbuf, Bitset(ref[k][x0], n))) != x0:
                    bad = ("reused-key-buffer", f"step {step}: decrypt under the buffer's current key is not the inverse")
                    break
            if bad:
                acc.violation("ffx:" + bad[0], bad[1], case)
        except TypeError:
            acc.count("hostile.bytearray_refused")
        # alternate two immutable keys on one object
        ffx = BitwiseFFX()
        acc.count("hostile.ffx_alternating_keys")
        for step in range(8):
            k = (k1, k2)[step % 2]
            x = rng.randrange(1 << n)
            if int(ffx.encrypt(k, Bitset(x, n))) != ref[k][x]:
                acc.violation("ffx:alternating-keys", f"one object used with two keys in turn: encrypt under key "
                                                      f"{'k1' if k == k1 else 'k2'} differs from a fresh object (n={n})", case)
                break
        # ---------------- bit-PRP: refused call, then valid ones
        kb = kl * 8
        prp = fpe_cls(message_bit_length=n, key_bit_length=kb)
        K = Bitset(k1, kb)
        before = [int(prp(K, Bitset(x, n))) for x in range(1 << n)]
        # the caller owns the bit string it is handed: overwriting it must not change what the PRP answers next time
        acc.count("hostile.result_scribbled")
        try:
            for x in range(1 << n):
                for obj, call in ((prp, lambda: prp(K, Bitset(x, n))), (ffx, lambda: ffx.encrypt(k1, Bitset(x, n)))):
                    r = call()
                    try:
                        r[0:n] = not bool(ref[k1][x] & 1)
                    except Exception:
                        try:
                            r.value = 0
                        except Exception:
                            pass
            again = [int(prp(K, Bitset(x, n))) for x in range(1 << n)]
            again_ffx = [int(ffx.encrypt(k1, Bitset(x, n))) for x in range(1 << n)]
            if again != ref[k1] or again_ffx != ref[k1]:
                acc.violation("fpe-prp:changed-after-caller-overwrote-result",
                              f"after the caller overwrote the bit strings it had been handed, the same object maps "
                              f"{sum(a != b for a, b in zip(again, ref[k1])) + sum(a != b for a, b in zip(again_ffx, ref[k1]))} "
                              f"inputs differently (n={n})", case)
                continue
        except Exception as e:
            acc.violation("fpe-prp:raised-after-caller-overwrote-result:" + exc_site(e), f"{type(e).__name__}: {e}", case)
            continue
        acc.count("hostile.fpe_after_refusal")
        for badcall in (lambda: prp(Bitset(0, kb + 8), Bitset(0, n)), lambda: prp(Bitset(0, kb - 8), Bitset(0, n)),
                        lambda: prp(K, Bitset(0, n + 1)), lambda: prp(K, Bitset(0, n - 1)) if n > 2 else None):
            try:
                badcall()
            except Exception:
                pass
            after = [int(prp(K, Bitset(x, n))) for x in range(1 << n)]
            if after != before or before != ref[k1]:
                acc.violation("fpe-prp:changed-after-refused-call", f"after a refused call the same PRP object maps "
                                                                    f"{sum(a != b for a, b in zip(after, before))} of "
                                                                    f"{1 << n} inputs differently (n={n})", case)
                break
        # ---------------- Luby-Rackoff: refused call, alternating keys, reused key buffer
        mlen = rng.choice([2, 4, 8, 16])
        klen = 3 * rng.choice([1, 8, 16])
        key, key_b = rng.randbytes(klen), rng.randbytes(klen)
        msgs = [rng.randbytes(mlen) for _ in range(40)]
        fresh = lambda k: lr_cls(message_length=mlen, key_length=klen)
        ref_a = [fresh(key)(key, m) for m in msgs]
        ref_b = [fresh(key_b)(key_b, m) for m in msgs]
        lcase = {"message_length": mlen, "key_length": klen, "key": key, "hostile": True}
        prp = lr_cls(message_length=mlen, key_length=klen)
        acc.count("hostile.lr_after_refusal")
        ok = [prp(key, m) for m in msgs] == ref_a
        for badkey in (key + rng.randbytes(3), key[:-3] if klen > 3 else key + b"\x00" * 3, key + key, rng.randbytes(klen + 1)):
            try:
                prp(badkey, msgs[0])
                acc.violation("lr:contract:key-length-accepted", f"a {len(badkey)}-byte key accepted by a PRP declared "
                                                                 f"with key_length={klen}", lcase)
            except ValueError:
                pass
            except Exception:
                pass
            try:
                prp(key, msgs[0] + b"\x00")
            except Exception:
                pass
            try:
                now = [prp(key, m) for m in msgs]
            except Exception as e:
                now = repr(e)
            if now != ref_a:
                ok = False
                acc.violation("lr:changed-after-refused-call",
                              f"valid key, then a refused {len(badkey)}-byte key, then the valid key again on the same "
                              f"object: " + (f"{sum(a != b for a, b in zip(now, ref_a))} of {len(msgs)} outputs differ "
                                             f"from before" if isinstance(now, list) else f"valid calls now raise {now}"),
                              lcase)
                break
        if ok:
            acc.count("hostile.lr_alternating_keys")
            for step in range(6):
                k, r = ((key, ref_a), (key_b, ref_b))[step % 2]
                j = rng.randrange(len(msgs))
                if prp(k, msgs[j]) != r[j]:
                    acc.violation("lr:alternating-keys", "one object used with two keys in turn differs from fresh "
                                                         "objects", lcase)
                    break
            kbuf = bytearray(key)
            try:
                a = prp(kbuf, msgs[0])
                kbuf[:] = key_b
                b = prp(kbuf, msgs[0])
                kbuf[:] = key
                a2 = prp(kbuf, bytearray(msgs[1]))
                if (a, b, a2) != (ref_a[0], ref_b[0], ref_a[1]) or bytes(kbuf) != key:
                    acc.violation("lr:reused-key-buffer", "with the key held in one bytearray overwritten in place, the "
                                                          "PRP does not follow the buffer's current content", lcase)
            except TypeError:
                acc.count("hostile.bytearray_refused")


def insitu(spec, acc, ctx):
    """Hook the PRP instances the schemes use while the real EDBSetup runs."""
    import schemes
    from toolkit.prp.bitwise_fpe_prp import BitwiseFPEPRP
    rng = ctx.rng
    calls = {}
    orig = BitwiseFPEPRP.__call__

    def hooked(self, key, message):
        out = orig(self, key, message)
        d = calls.setdefault(id(self), {"n": self.message_bit_length, "map": {}, "bad": []})
        x = (int(key), int(message))
        if len(out) != self.message_bit_length or not (0 <= int(out) < (1 << self.message_bit_length)):
            d["bad"].append(("length", x, int(out), len(out)))
        prev = d["map"].get(x)
        if prev is not None and prev != int(out):
            d["bad"].append(("nondeterministic", x, int(out), prev))
        d["map"][x] = int(out)
        return out

    BitwiseFPEPRP.__call__ = hooked
    try:
        for r in range(spec["rounds"]):
            calls.clear()
            which = "CGKO06.SSE1" if (r + spec.get("index", 0)) % 2 == 0 else "CGKO06.SSE2"
            L = schemes.load_sse_module(which)
            cfg = dict(L.SSEConfig.get_default_config())
            nk = rng.randint(2, 8)
            if which.endswith("SSE1"):
                s = rng.choice([16, 64, 256, 1024])
                cfg.update(param_s=s, param_dictionary_size=rng.choice([nk, nk + 3, 32]),
                           param_k=rng.choice([16, 24, 32]), param_l=rng.choice([8, 16, 32]))
                total = rng.randint(nk, min(s - 1, 40))
            else:
                total = rng.randint(nk, 30)
                cfg.update(param_k=rng.choice([16, 24, 32]), param_l=rng.choice([8, 16, 32]), param_n=total + 2)
            isz = cfg["param_identifier_size"]
            ids = [(i + 1).to_bytes(isz, "big") for i in range(total)]
            kws = [bytes([1 + i]) + rng.randbytes(rng.randint(0, cfg["param_l"] - 1)) for i in range(nk)]
            db = {kw: [] for kw in kws}
            for j, idv in enumerate(ids):
                db[kws[j % nk] if j < nk else rng.choice(kws)].append(idv)
            sch = L.SSEScheme(cfg)
            key = sch.KeyGen()
            edb = sch.EDBSetup(key, db)
            for kw in kws:
                got = sch.Search(edb, sch.TokenGen(key, kw)).get_result_list()
                acc.count("insitu.searches")
                if list(got) != db[kw]:
                    acc.violation(f"insitu:{which}:wrong-result", "search result differs from the plaintext database",
                                  {"scheme": which, "cfg": cfg, "db": db, "kw": kw})
            for inst, d in calls.items():
                acc.count("insitu.prp_instances")
                acc.count("insitu.prp_calls", len(d["map"]))
                for b in d["bad"]:
                    acc.violation(f"insitu:{which}:prp-{b[0]}", f"PRP call {b}", {"scheme": which, "cfg": cfg})
                # per key: distinct inputs -> distinct outputs
                per_key = {}
                for (k, x), y in d["map"].items():
                    per_key.setdefault(k, {}).setdefault(y, []).append(x)
                for k, outs in per_key.items():
                    for y, xs in outs.items():
                        if len(xs) > 1:
                            acc.violation(f"insitu:{which}:prp-collision",
                                          f"inputs {xs[:3]} share output {y} (width {d['n']})",
                                          {"scheme": which, "cfg": cfg, "db": db})
            acc.count("cases")
            acc.add("distinct", fp("i", spec.get("index", 0), r))
            acc.add("insitu_schemes", which)
    finally:
        BitwiseFPEPRP.__call__ = orig


def replay(case, acc, ctx):
    from toolkit.bits import Bitset
    from toolkit.symmetric_encryption.fpe import BitwiseFFX
    if case.get("hostile"):
        hostile({"index": 0, "rounds": 40}, acc, ctx)
        acc.count("replayed")
        return
    if "n" in case and "key" in case:
        n, key = case["n"], case["key"]
        ffx = BitwiseFFX()
        xs = [case["x"]] if "x" in case else range(1 << n)
        image = set()
        for x in xs:
            y = ffx.encrypt(key, Bitset(x, n))
            image.add(int(y))
            if len(y) != n or int(ffx.decrypt(key, y)) != x:
                acc.violation("ffx:replay", f"x={x}: length {len(y)} / inverse failed", case)
        if "x" not in case and len(image) != (1 << n):
            acc.violation("ffx:replay", "not bijective", case)
    acc.count("replayed")


def finish(m, tier, seed):
    c = m["counters"]
    inc = []
    ex = sorted(int(x) for x in m["sets"].get("exhaustive_n", []))
    if ex != list(range(2, 13)):
        inc.append(f"exhaustive widths covered {ex}, expected 2..12")
    if len(m["sets"].get("long_life_done", [])) < 2:
        inc.append("the 2^16+500-input lives of one PRP / cipher object did not complete")
    if "2-byte" not in m["sets"].get("lr_exhaustive", []):
        inc.append("Luby-Rackoff 2-byte exhaustive run missing")
    if len(m["sets"].get("shared_object_orders", [])) < 3:
        inc.append("shared-cipher-object workload missing")
    if c.get("ffx.decrypt", 0) < 5000:
        inc.append("too few FFX inverse checks")
    if c.get("threads.calls_compared", 0) < 100:
        inc.append("the shared-by-threads workload observed too little")
    if c.get("hostile.lr_after_refusal", 0) < 10 or c.get("hostile.ffx_reused_key_buffer", 0) < 10:
        inc.append("hostile-caller workload missing")
    if c.get("insitu.prp_calls", 0) < 50 or len(m["sets"].get("insitu_schemes", [])) < 2:
        inc.append("in-situ PRP hook observed too few calls")
    for fn in ("toolkit/symmetric_encryption/fpe.py:BitwiseFFX.encrypt",
               "toolkit/prp/luby_rackoff_prp.py:LubyRackoffPRP.__call__",
               "toolkit/bits_utils.py:half_bits_not_padding"):
        if fn not in m["sets"].get("functions_entered", []):
            inc.append(fn + " never entered")
    widths = sorted(int(x) for x in m["sets"].get("ffx_widths", []))
    cov = {
        "evaluations": c.get("cases", 0),
        "distinct_nontrivial": len(m["sets"].get("distinct", [])),
        "rule": "case = (width n, key) with ALL 2^n inputs (n = 2..12), or one random wide input (n to 2100), or one "
                "Luby-Rackoff (key, message set), or one SSE-1/SSE-2 setup observed through the PRP hook; every case "
                "evaluates bijectivity / inverse / injectivity (non-trivial); distinct = distinct (n, key[, x]).",
        "exhaustive": True,
        "exhaustive_scope": "all 2^n inputs for n=2..12 per sampled key; all 65536 two-byte Luby-Rackoff messages per "
                            "sampled key (keys themselves are sampled)",
        "exhaustive_widths": ex,
        "ffx_encryptions": c.get("ffx.encrypt", 0),
        "ffx_inverse_checks": c.get("ffx.decrypt", 0),
        "random_widths_seen": [widths[0], widths[-1], len(widths)] if widths else [],
        "luby_rackoff_calls": c.get("lr.calls", 0),
        "luby_rackoff_message_lengths": sorted(int(x) for x in m["sets"].get("lr_message_lengths", [])),
        "contract_checks": {k[9:]: v for k, v in c.items() if k.startswith("contract.")},
        "hostile_callers": {k[8:]: v for k, v in c.items() if k.startswith("hostile.")},
        "objects_shared_by_four_threads": {k[8:]: v for k, v in c.items() if k.startswith("threads.")},
        "insitu": {k: v for k, v in c.items() if k.startswith("insitu.")},
    }
    return {"coverage": cov, "inconclusive": inc,
            "assumptions": ["keys are sampled; bijectivity is exhaustive per key, not over keys",
                            "n >= 2 (FFX on one bit is outside the property)"]}
