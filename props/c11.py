"""C11 - client workflow: steps out of order are refused and the key is write-once.

Monitor shape: history + executable model. Every sequence over nine client operations (create with a valid /
invalid configuration, re-create from the service's own stored configuration, generate key, encrypt, upload
configuration, upload index, search present, search absent) up to a bounded depth is executed - each operation on
a Service object freshly loaded from disk, against the live in-process server - and compared with a 5-flag
reference model: accept/refuse, the flags persisted in service_meta, the directory snapshot (names + SHA-256)
around refused operations, the key file's bytes, and the search results once the index is uploaded.
"""
import asyncio
import contextlib
import copy
import hashlib
import itertools
import json
import os
import pickle

from vlib import gen, wsharness as wh
from vlib.common import exc_site, fp, retry_on_timeout

LEVEL = "exploration"
SHARD_TIMEOUT = {"quick": 280, "thorough": 1700}
OPS = ["create", "create-invalid", "recreate-same", "key", "encrypt", "upcfg", "upedb", "search", "search-absent"]
B_CFG, B_CFGUP, B_KEY, B_ENC, B_DBUP = 1, 2, 4, 8, 16


def plan(tier, seed):
    depth = 4 if tier == "quick" else 5
    specs = []
    for a in OPS:
        for b in OPS:
            specs.append({"name": f"exh-{a}.{b}", "kind": "exh", "prefix": [a, b], "depth": depth,
                          "budget_s": 200 if tier == "quick" else 1500})
        specs.append({"name": f"exh1-{a}", "kind": "exh", "prefix": [a], "depth": 1, "budget_s": 60})
    for i, sch in enumerate(gen.SCHEMES):
        specs.append({"name": f"workflow-variants-{gen.SHORT[sch]}", "kind": "variants", "scheme": sch,
                      "budget_s": 120 if tier == "quick" else 900, "tails": 1 if tier == "quick" else 2})
    for i in range(2 if tier == "quick" else 8):
        specs.append({"name": f"commands{i}", "kind": "commands", "index": i, "sequences": 40 if tier == "quick" else 400,
                      "budget_s": 100 if tier == "quick" else 900})
    for i in range(8 if tier == "quick" else 16):
        specs.append({"name": f"rand{i}", "kind": "rand", "index": i, "sequences": 40 if tier == "quick" else 600,
                      "budget_s": 80 if tier == "quick" else 900})
    # "an index that was built and uploaded remains searchable" also for a keyword whose answer is large (> 1 MiB)
    specs.append({"name": "searchable-large-answer", "kind": "large", "budget_s": 200})
    return specs


def snapshot(d):
    out = {}
    if os.path.isdir(d):
        for root, _, files in os.walk(d):
            for f in files:
                p = os.path.join(root, f)
                try:
                    out[os.path.relpath(p, d)] = hashlib.sha256(open(p, "rb").read()).hexdigest()
                except OSError:
                    out[os.path.relpath(p, d)] = "unreadable"
    return out


def invalid_config(rng, scheme, cfg):
    """A configuration the chosen scheme cannot be instantiated with (scheme-specific)."""
    from props.c08 import FIELDS
    f = FIELDS[scheme]
    names = list(f["names"])
    kind = rng.randrange(11)
    c = copy.deepcopy(cfg)
    if kind >= 8:
        # a twin that compares EQUAL to the valid configuration (32.0 == 32, True == 1) but is typed differently, as a
        # hand-edited or exported JSON file may be: refused by the schemes that insist on integers
        ints = [k for k, v in c.items() if isinstance(v, int) and not isinstance(v, bool)]
        k = rng.choice(ints) if ints else None
        if k is not None:
            c[k] = float(c[k]) if (kind < 10 or c[k] != 1) else True
    elif kind == 0:
        c["scheme"] = "NoSuch.Scheme"
    elif kind == 5:
        c["scheme"] = rng.choice([scheme + " ", " " + scheme, "\t" + scheme, scheme + "\n"])  # a known name, padded
    elif kind == 6:
        c["scheme"] = rng.choice([x for x in (scheme.lower(), scheme.upper(), scheme.replace(".", "/"),
                                              scheme.split(".")[0], scheme.swapcase()) if x != scheme])
    elif kind == 7:
        c[f["length"][0]] = rng.choice([0, -1, "32", None])  # never a usable key length in any scheme
    elif kind == 1:
        del c[rng.choice(names)]
    elif kind == 2:
        c[rng.choice(names)] = "NoSuchPrimitive"
    elif kind == 3:
        del c[f["length"][0]]
    else:
        ske_field = [n for n, k in f["names"].items() if k == "ske"][0]
        c[ske_field] = "DES-CBC"
    return c


class Runner:
    def __init__(self, acc, ctx, server):
        self.acc, self.ctx, self.server = acc, ctx, server
        self.env = server.env
        self.Service = self.env["cservice"].Service
        self.client_root = os.path.join(os.environ["HOME"], ".sse", "client")
        self.n = 0

    async def net(self, svc, coro_fn):
        got = {}

        def cb(fut):
            got["content"] = fut.result()
        task = asyncio.ensure_future(coro_fn(cb))
        loop = asyncio.get_running_loop()
        t_end = loop.time() + 8
        while not task.done():
            await asyncio.sleep(0.002)
            if svc.websocket is not None and svc.websocket.closed and "content" not in got:
                task.cancel()
                with contextlib.suppress(BaseException):
                    await task
                return ("closed", None)
            if loop.time() > t_end:
                task.cancel()
                with contextlib.suppress(BaseException):
                    await task
                return ("timeout", None)
        try:
            task.result()
        except Exception as e:
            return ("raised", e)
        return ("ok", got.get("content"))

    async def close(self, svc):
        try:
            await asyncio.wait_for(svc.close_service(), 4)
        except Exception:
            if svc.websocket is not None:
                with contextlib.suppress(Exception):
                    await asyncio.wait_for(svc.websocket.close(), 3)

    async def run_sequence(self, seq, scheme="CJJ14.PiBas"):
        acc, rng = self.acc, self.ctx.rng
        self.n += 1
        acc.count("cases")
        cfg = gen.default_config(scheme)
        if scheme == "CGKO06.SSE1":
            cfg.update(param_s=64, param_dictionary_size=8)
        isz = cfg.get("param_identifier_size", 8)
        db = {b"kw1": [gen.gen_id(rng, isz) for _ in range(3)], b"kw2": [gen.gen_id(rng, isz)]}
        if scheme == "CGKO06.SSE2":
            cfg["param_n"] = 6
        sid = None
        fake_sid = "%064x" % (rng.getrandbits(255) + 1)
        flags, server_state = 0, 0
        key_bytes = None
        trace = []
        case = {"scheme": scheme, "sequence": list(seq), "trace": trace}

        def viol(sig, msg):
            acc.violation("client:" + sig, f"{msg}  (sequence {' '.join(seq)}; step {len(trace)})", dict(case, cfg=cfg))

        def sdir(s):
            return os.path.join(self.client_root, s)

        for op in seq:
            cur = sid or fake_sid
            before_flags, before_server = flags, server_state
            snap_before = snapshot(sdir(cur))
            roots_before = set(os.listdir(self.client_root))
            acc.add("flagsets", f"{flags:05b}")
            acc.add("op_x_flags", f"{op}@{flags:05b}")
            # ---- model: is the operation accepted?
            connects = op in ("upcfg", "upedb", "search", "search-absent")
            if connects:
                # on connect the upload flags are re-derived from the server's reported state
                flags = (flags & ~(B_CFGUP | B_DBUP)) | (B_CFGUP if server_state >= 1 else 0) | \
                        (B_DBUP if server_state == 2 else 0)
            if op == "create":
                expect = not (flags & B_CFG)
            elif op == "create-invalid":
                expect = False
            elif op == "recreate-same":
                expect = None  # refused, or a separate new service; never a reset of the existing one (checked below)
            elif op == "key":
                expect = bool(flags & B_CFG) and not (flags & B_KEY)
            elif op == "encrypt":
                expect = bool(flags & B_CFG) and bool(flags & B_KEY) and not (flags & B_ENC)
            elif op == "upcfg":
                expect = bool(flags & B_CFG) and not (flags & B_CFGUP)
            elif op == "upedb":
                expect = bool(flags & B_CFGUP) and not (flags & B_DBUP) and bool(flags & B_KEY) and bool(flags & B_ENC)
            else:
                expect = bool(flags & B_DBUP)
            # ---- execute on a Service freshly loaded from disk
            accepted, detail, result = None, "", None
            svc = None
            try:
                if op == "create":
                    svc = self.Service(sid) if sid else self.Service()
                    new_sid = svc.handle_create_config(copy.deepcopy(cfg))
                    accepted = True
                    if sid is None:
                        sid = new_sid
                elif op == "create-invalid":
                    svc = self.Service(sid) if sid else self.Service()
                    bad = invalid_config(rng, scheme, cfg)
                    try:  # "invalid" is defined by the library itself: the scheme cannot be instantiated with it
                        import schemes as _schemes
                        _schemes.load_sse_module(bad.get("scheme")).SSEScheme(copy.deepcopy(bad))
                        acc.count("generated_invalid_config_was_valid")
                        bad = dict(cfg, scheme="NoSuch.Scheme")
                    except Exception:
                        pass
                    svc.handle_create_config(bad)
                    accepted = True
                elif op == "recreate-same":
                    # a brand-new client object (as the CLI's create-service makes) given the service's OWN stored,
                    # already salted configuration: same content -> same sid; must not reset the existing service
                    svc = self.Service()
                    if sid is None:
                        raise ValueError("no service to re-create yet")
                    stored = json.load(open(os.path.join(sdir(sid), "config.json")))
                    again = svc.handle_create_config(stored)
                    accepted = True
                    if again == sid:
                        trace.append([op, "accepted-with-the-same-sid", ""])
                        viol("recreate-reset-existing-service",
                             f"creating a service again from the service's own stored configuration was accepted for the "
                             f"same sid: flags {before_flags:05b} -> {self.persisted_flags(sid)}")
                        return
                elif op == "key":
                    svc = self.Service(cur)
                    svc.handle_create_key()
                    accepted = True
                elif op == "encrypt":
                    svc = self.Service(cur)
                    svc.handle_encrypt_database(copy.deepcopy(db))
                    accepted = True
                else:
                    svc = self.Service(cur)
                    if op == "upcfg":
                        r = await self.net(svc, lambda cb: svc.handle_upload_config(wait=True, wait_callback_func=cb))
                    elif op == "upedb":
                        r = await self.net(svc, lambda cb: svc.handle_upload_encrypted_database(wait=True, wait_callback_func=cb))
                    else:
                        w = b"kw1" if op == "search" else b"zzz"
                        r = await self.net(svc, lambda cb: svc.handle_keyword_search(w, wait=True, wait_callback_func=cb))
                    if r[0] == "ok":
                        accepted = True
                        if op in ("upcfg", "upedb"):
                            echo = pickle.loads(r[1])
                            if not echo.get("ok"):
                                accepted, detail = False, "server said not ok"
                        else:
                            result = svc.sse_module_loader.SSEResult.deserialize(r[1], svc.config_object).get_result_list()
                    elif r[0] == "raised":
                        accepted, detail = False, f"{type(r[1]).__name__}: {r[1]}"
                    elif r[0] == "closed":
                        accepted, detail = False, "connection closed by the server"
                    else:
                        why = await wh.server_keeps_a_dead_connection(self.env, sid)
                        if why:
                            # decided logically, not by the clock: this request can never be answered
                            accepted, detail = False, "never served: " + why
                            await self.close(svc)
                        else:
                            acc.count("timeouts")
                            acc.note(f"timeout in {op} of {' '.join(seq)}")
                            await self.close(svc)
                            return
                    await self.close(svc)
            except Exception as e:
                accepted, detail = False, f"{type(e).__name__}: {e}"
                if svc is not None and getattr(svc, "websocket", None) is not None:
                    await self.close(svc)
            trace.append([op, "accepted" if accepted else "refused", detail[:80]])
            acc.count("ops")
            acc.count("ops.accepted" if accepted else "ops.refused")
            if expect is None:
                # either outcome is fine as long as the existing service is untouched
                acc.count("recreate_same." + ("new-service" if accepted else "refused"))
                if snapshot(sdir(cur)) != snap_before:
                    viol("recreate-changed-existing-service", "re-creating from the stored configuration changed the "
                                                              "files of the existing service")
                    return
                continue
            if accepted != expect:
                viol(f"{'accepted' if accepted else 'refused'}-but-model-{'accepts' if expect else 'refuses'}:{op}@{before_flags:05b}",
                     f"{op} with flags {before_flags:05b} (server state {before_server}) was "
                     f"{'accepted' if accepted else 'refused (' + detail[:70] + ')'}; the model "
                     f"{'accepts' if expect else 'refuses'} it")
                return
            # ---- model: effects
            if accepted:
                if op == "create":
                    flags |= B_CFG
                elif op == "key":
                    flags |= B_KEY
                elif op == "encrypt":
                    flags |= B_ENC
                elif op == "upcfg":
                    flags |= B_CFGUP
                    server_state = 1
                elif op == "upedb":
                    flags |= B_DBUP
                    server_state = 2
            else:
                # a refused operation leaves persisted state and files unchanged
                acc.count("refused_snapshots_compared")
                snap_after = snapshot(sdir(cur))
                roots_after = set(os.listdir(self.client_root))
                if roots_after != roots_before:
                    viol(f"refused-op-created-files:{op}", f"refused {op} created {sorted(roots_after - roots_before)[:3]} "
                                                           f"under the client directory")
                    return
                if snap_after != snap_before:
                    changed = sorted(k for k in set(snap_before) | set(snap_after) if snap_before.get(k) != snap_after.get(k))
                    # re-synchronising the two upload flags from the server on connect is part of the documented
                    # behaviour; anything else is a change by a refused operation
                    meta_only = changed == ["service_meta"]
                    persisted = self.persisted_flags(cur)
                    if not (meta_only and connects and persisted == flags):
                        viol(f"refused-op-changed-files:{op}", f"refused {op} changed {changed} in the service directory")
                        return
            # ---- persisted flags follow the model
            if sid is not None:
                acc.count("persisted_flag_checks")
                persisted = self.persisted_flags(sid)
                if persisted != flags:
                    viol(f"persisted-flags-differ:after-{op}",
                         f"after {op} ({'accepted' if accepted else 'refused'}) service_meta holds flags "
                         f"{persisted if persisted is None else format(persisted, '05b')}, the model {flags:05b}")
                    return
                kp = os.path.join(sdir(sid), "key")
                if flags & B_KEY:
                    kb = open(kp, "rb").read() if os.path.exists(kp) else None
                    acc.count("key_file_checks")
                    if key_bytes is None:
                        key_bytes = kb
                    elif kb != key_bytes:
                        viol(f"key-file-changed:after-{op}", f"the key file's bytes changed after {op}")
                        return
            if result is not None:
                acc.count("searches_compared")
                want = db.get(b"kw1" if op == "search" else b"zzz", [])
                okk = (set(result) == set(want)) if scheme in gen.SET_RESULT else list(result) == want
                if not okk:
                    viol(f"search-wrong-after-workflow:{op}", f"{op} returned {len(result)} ids, expected {len(want)}")
                    return
        # a last probe when the sequence ended with a key and no local index: "encrypt database" with a database that
        # holds no posting at all ({} or keywords with empty lists).  A scheme may index it or refuse it; a refusal
        # leaves files and flags as they were, an acceptance sets the flag - nothing in between.
        if sid is not None and (flags & B_CFG) and (flags & B_KEY) and not (flags & B_ENC) and self.n % 2 == 0:
            empty_db = rng.choice([{}, {b"kw1": [], b"kw2": []}])
            snap_before = snapshot(os.path.join(self.client_root, sid))
            acc.count("encrypt_probes_with_an_empty_database")
            try:
                self.Service(sid).handle_encrypt_database(copy.deepcopy(empty_db))
                ok_ = True
            except Exception as e:
                ok_, detail = False, f"{type(e).__name__}: {e}"
            persisted = self.persisted_flags(sid)
            if ok_:
                if persisted != (flags | B_ENC):
                    viol("empty-database:accepted-but-flag-not-stored", f"encrypt with {empty_db!r} was accepted but "
                                                                        f"service_meta holds {persisted}")
            else:
                snap_after = snapshot(os.path.join(self.client_root, sid))
                if snap_after != snap_before or persisted != flags:
                    changed = sorted(k for k in set(snap_before) | set(snap_after) if snap_before.get(k) != snap_after.get(k))
                    viol("refused-op-changed-files:encrypt-empty-database",
                         f"encrypt with {empty_db!r} was refused ({detail[:60]}) but changed {changed} in the service "
                         f"directory")
        acc.add("distinct", fp(scheme, list(seq)))
        acc.add("distinct_traces", fp(trace))
        if self.n <= 2:
            acc.sample({"scheme": scheme, "sequence": list(seq), "trace": trace, "final_flags": f"{flags:05b}"})

    def persisted_flags(self, sid):
        p = os.path.join(self.client_root, sid, "service_meta")
        try:
            return pickle.load(open(p, "rb")).get("state")
        except Exception:
            return None


async def run_commands_sequence(r, seq, scheme, idx):
    """The same model driven through frontend.client.commands (what run_client.py calls): operations address the
    service by its alias, outcomes are read from the captured stdout."""
    import contextlib as cl
    import io
    import frontend.client.commands as cmds
    import frontend.client.services.service_name_handler as snh
    acc, rng = r.acc, r.ctx.rng
    acc.count("cases")
    acc.count("command_sequences")
    cfg = gen.default_config(scheme)
    if scheme == "CGKO06.SSE1":
        cfg.update(param_s=64, param_dictionary_size=8)
    if scheme == "CGKO06.SSE2":
        cfg["param_n"] = 6
    isz = cfg.get("param_identifier_size", 8)
    ids = {"kw1": [gen.gen_id(rng, isz).hex() for _ in range(3)], "kw2": [gen.gen_id(rng, isz).hex()]}
    d = r.ctx.tmpdir("cmd")
    cfg_path, db_path = os.path.join(d, "cfg.json"), os.path.join(d, "db.json")
    json.dump(cfg, open(cfg_path, "w"))
    json.dump(ids, open(db_path, "w"))
    sname = f"alias-{idx}-{rng.getrandbits(40)}"
    flags, server_state, sid, key_bytes = 0, 0, None, None
    # a second, untouched service of the same client (created up front, never used): commands may name its alias
    decoy_alias, decoy_sid = sname + "-other", None
    if rng.random() < 0.6:
        with cl.redirect_stdout(io.StringIO()):
            cmds.create_service(cfg_path, decoy_alias)
        decoy_sid = snh.read_service_mapping().get(decoy_alias)
    trace = []
    case = {"scheme": scheme, "sequence": list(seq), "trace": trace, "layer": "commands"}

    def viol(sig, msg):
        acc.violation("client-commands:" + sig, f"{msg}  (sequence {' '.join(seq)}; step {len(trace)})", case)

    for op in seq:
        out = io.StringIO()
        before = flags
        if op == "create-unreadable":
            # create-service with a configuration file that is missing, or is not JSON, under a NEW alias: refused, and
            # nothing that exists - this service, other services of earlier sequences, the alias table - is touched
            bad_path = os.path.join(d, "no-such-file.json")
            if rng.random() < 0.5:
                bad_path = os.path.join(d, "broken.json")
                open(bad_path, "w").write('{"scheme": "CJJ14.PiBas", ')
            tree_before = snapshot(r.client_root)
            mapping_before = dict(snh.read_service_mapping())
            try:
                with cl.redirect_stdout(out):
                    cmds.create_service(bad_path, sname + "-second")
            except Exception as e:
                viol(f"command-raised:create-unreadable:{exc_site(e)}",
                     f"create-service with an unreadable configuration file raised {type(e).__name__}: {e} instead of "
                     f"reporting the error")
                return
            text = out.getvalue()
            trace.append([op, "refused" if "error" in text.lower() else "accepted", text.strip()[-90:]])
            acc.count("command_ops")
            acc.count("unreadable_config_creates")
            tree_after = snapshot(r.client_root)
            if "error" not in text.lower():
                viol("unreadable-config-accepted", f"create-service with an unreadable configuration file printed "
                                                   f"{text.strip()[-80:]!r}")
                return
            gone = sorted(k for k in tree_before if k not in tree_after)
            changed = sorted(k for k in tree_before if k in tree_after and tree_before[k] != tree_after[k]
                             and "log" not in k)
            if gone or changed or dict(snh.read_service_mapping()) != mapping_before:
                viol("refused-create-changed-existing-files",
                     f"a refused create-service (unreadable configuration file) removed {len(gone)} and changed "
                     f"{len(changed)} existing files, e.g. {(gone + changed)[:3]}")
                return
            continue
        if op == "create-dup" and sid is None:
            op = "create"  # nothing to duplicate yet: it is simply the first create-service
        connects = op in ("upcfg", "upedb", "search")
        if connects and sid is not None:
            flags = (flags & ~(B_CFGUP | B_DBUP)) | (B_CFGUP if server_state >= 1 else 0) | (B_DBUP if server_state == 2 else 0)
        expect = {"create": sid is None, "create-dup": False,
                  "key": bool(flags & B_CFG) and not (flags & B_KEY),
                  "encrypt": bool(flags & B_CFG) and bool(flags & B_KEY) and not (flags & B_ENC),
                  "upcfg": bool(flags & B_CFG) and not (flags & B_CFGUP),
                  "upedb": bool(flags & B_CFGUP) and not (flags & B_DBUP) and bool(flags & B_KEY) and bool(flags & B_ENC),
                  "search": bool(flags & B_DBUP)}[op]
        snap_before = snapshot(os.path.join(r.client_root, sid)) if sid else {}
        mapping_before = dict(snh.read_service_mapping())
        # how the service is addressed: by its alias; by its sid; or by its sid together with the alias of ANOTHER service
        # (run_client.py accepts both options at once and the sid decides) - the other service must never be touched
        addr = {"sname": sname}
        if sid is not None and op not in ("create", "create-dup"):
            how = rng.random()
            if how < 0.25:
                addr = {"sid": sid}
            elif how < 0.55 and decoy_sid is not None:
                addr = {"sid": sid, "sname": decoy_alias}
                acc.count("commands_given_sid_and_another_alias")
        decoy_before = snapshot(os.path.join(r.client_root, decoy_sid)) if decoy_sid else {}
        try:
            with cl.redirect_stdout(out):
                if op in ("create", "create-dup"):
                    cmds.create_service(cfg_path, sname)
                elif op == "key":
                    cmds.generate_key(**addr)
                elif op == "encrypt":
                    cmds.encrypt_database(db_path, **addr)
                elif op == "upcfg":
                    await asyncio.wait_for(cmds.upload_config(**addr), 10)
                elif op == "upedb":
                    await asyncio.wait_for(cmds.upload_encrypted_database(**addr), 10)
                else:
                    await asyncio.wait_for(cmds.search("kw1", "hex", **addr), 10)
        except asyncio.TimeoutError:
            acc.count("timeouts")
            return
        except Exception as e:
            viol(f"command-raised:{op}:{exc_site(e)}", f"the {op} command raised {type(e).__name__}: {e} instead of "
                                                       f"reporting the error")
            return
        text = out.getvalue()
        accepted = ("successfully" in text or ">>> The result is" in text) and "error" not in text.lower()
        trace.append([op, "accepted" if accepted else "refused", text.strip()[-90:], sorted(addr)])
        if decoy_sid and snapshot(os.path.join(r.client_root, decoy_sid)) != decoy_before:
            viol(f"another-service-touched:{op}", f"{op} addressed with {sorted(addr)} changed the files of another service "
                                                  f"(the one whose alias was given beside the sid)")
            return
        acc.count("command_ops")
        if op == "create" and accepted and sid is None:
            sid = snh.read_service_mapping().get(sname)
        if op in ("create", "create-dup") and sid is not None and op != "create" or (op == "create" and not expect):
            # the alias is registered once: it keeps pointing at the first service, whose files are untouched
            acc.count("alias_checks")
            if snh.read_service_mapping().get(sname) != mapping_before.get(sname):
                viol("alias-remapped", f"service alias {sname} was re-pointed by a second create-service")
                return
            if snapshot(os.path.join(r.client_root, sid)) != snap_before:
                viol("alias-create-changed-existing-service", "a second create-service with the same alias changed "
                                                              "the files of the existing service")
                return
            if accepted:
                viol("alias-reused", "create-service with an alias that already exists reported success")
                return
            continue
        if accepted != expect:
            viol(f"{'accepted' if accepted else 'refused'}-but-model-{'accepts' if expect else 'refuses'}:{op}@{before:05b}",
                 f"{op} (via commands) with flags {before:05b} printed {text.strip()[-100:]!r}")
            return
        if accepted:
            if op == "create":
                flags |= B_CFG
            elif op == "key":
                flags |= B_KEY
            elif op == "encrypt":
                flags |= B_ENC
            elif op == "upcfg":
                flags |= B_CFGUP
                server_state = 1
            elif op == "upedb":
                flags |= B_DBUP
                server_state = 2
            elif op == "search":
                want = str(ids["kw1"]) if scheme not in gen.SET_RESULT else None
                acc.count("searches_compared")
                if want is not None and f">>> The result is {want}." not in text:
                    viol("search-wrong-after-workflow", f"search printed {text.strip()[-120:]!r}, expected {want}")
                    return
        elif sid is not None:
            snap_after = snapshot(os.path.join(r.client_root, sid))
            changed = sorted(k for k in set(snap_before) | set(snap_after) if snap_before.get(k) != snap_after.get(k))
            if changed and not (changed == ["service_meta"] and connects and r.persisted_flags(sid) == flags):
                viol(f"refused-op-changed-files:{op}", f"refused {op} changed {changed}")
                return
        if sid is not None:
            acc.count("persisted_flag_checks")
            if r.persisted_flags(sid) != flags:
                viol(f"persisted-flags-differ:after-{op}", f"service_meta holds {r.persisted_flags(sid)}, model {flags:05b}")
                return
            if flags & B_KEY:
                kb = open(os.path.join(r.client_root, sid, "key"), "rb").read()
                acc.count("key_file_checks")
                if key_bytes is None:
                    key_bytes = kb
                elif kb != key_bytes:
                    viol(f"key-file-changed:after-{op}", "the key file's bytes changed")
                    return
    acc.add("distinct", fp("cmd", scheme, list(seq), idx))


async def amain(spec, acc, ctx):
    wh.setup_env()
    server = await wh.Server().start()
    r = Runner(acc, ctx, server)
    if spec["kind"] == "exh":
        pre = spec["prefix"]
        for L in range(len(pre), spec["depth"] + 1):
            for rest in itertools.product(OPS, repeat=L - len(pre)):
                if ctx.out_of_time() or acc.counters.get("timeouts", 0) > 3 or acc.n_violations > 25:
                    acc.count("exhaustive_incomplete")
                    acc.note("exhaustive enumeration cut")
                    await server.stop()
                    return
                await retry_on_timeout(acc, lambda: r.run_sequence(pre + list(rest)))
        acc.add("exhaustive_prefixes", ".".join(pre))
    elif spec["kind"] == "commands":
        cops = ["create", "create-dup", "key", "encrypt", "upcfg", "upedb", "search", "create-unreadable"]
        flow = ["create", "key", "encrypt", "upcfg", "upedb", "search"]
        for i in range(spec["sequences"]):
            if ctx.out_of_time() or acc.counters.get("timeouts", 0) > 3 or acc.n_violations > 25:
                break
            scheme = gen.SCHEMES[(i + spec["index"]) % len(gen.SCHEMES)]
            if i % 3 == 0:
                pos = ctx.rng.randint(0, len(flow))
                seq = flow[:pos] + [ctx.rng.choice(cops)] + flow[pos:] + [ctx.rng.choice(cops)]
            else:
                seq = [ctx.rng.choice(flow[:min(len(flow), k + 2)] + cops[:2]) if ctx.rng.random() < 0.7 else ctx.rng.choice(cops)
                       for k in range(ctx.rng.randint(5, 11))]
            await retry_on_timeout(acc, lambda: run_commands_sequence(r, seq, scheme, f"{spec['index']}-{i}"))
        acc.add("schemes", "commands-layer")
    elif spec["kind"] == "variants":
        # the complete workflow with one extra operation inserted at every position, and followed by every tail
        flow = ["create", "key", "encrypt", "upcfg", "upedb", "search"]
        seqs = [flow + ["search-absent", "search"]]
        for pos in range(len(flow) + 1):
            for op in OPS:
                seqs.append(flow[:pos] + [op] + flow[pos:])
        for tail in itertools.product(OPS, repeat=spec["tails"]):
            seqs.append(flow + list(tail) + ["search"])
        # alternative legal orders of the local steps
        seqs += [["create", "upcfg", "key", "encrypt", "upedb", "search"],
                 ["create", "key", "upcfg", "encrypt", "upedb", "search", "search-absent"]]
        for sq in seqs:
            if ctx.out_of_time() or acc.counters.get("timeouts", 0) > 3 or acc.n_violations > 25:
                acc.count("variants_incomplete")
                break
            await retry_on_timeout(acc, lambda: r.run_sequence(sq, spec["scheme"]))
        acc.add("schemes", spec["scheme"])
    else:
        # longer random sequences biased towards progress, schemes rotated
        for i in range(spec["sequences"]):
            if ctx.out_of_time() or acc.counters.get("timeouts", 0) > 3 or acc.n_violations > 25:
                break
            scheme = gen.SCHEMES[(i + spec["index"]) % len(gen.SCHEMES)]
            n = ctx.rng.randint(6, 12)
            prog = ["create", "key", "encrypt", "upcfg", "upedb", "search"]
            seq = []
            for _ in range(n):
                seq.append(ctx.rng.choice(prog[:min(len(prog), len(seq) + 2)]) if ctx.rng.random() < 0.6
                           else ctx.rng.choice(OPS))
            await retry_on_timeout(acc, lambda: r.run_sequence(seq, scheme))
            acc.add("schemes", scheme)
    await server.stop()


def run_shard(spec, acc, ctx):
    if spec["kind"] == "large":
        from props import c09

        async def go():
            env = wh.setup_env()
            server = await wh.Server().start()
            await c09.big_one(env, server, acc, "CJJ14.PiPack", 40000)
            acc.count("cases")
            await server.stop()
        asyncio.run(go())
        return
    asyncio.run(amain(spec, acc, ctx))


def replay(case, acc, ctx):
    async def go():
        wh.setup_env()
        server = await wh.Server().start()
        await Runner(acc, ctx, server).run_sequence(case["sequence"], case.get("scheme", "CJJ14.PiBas"))
        await server.stop()
    asyncio.run(go())
    acc.count("replayed")


def finish(m, tier, seed):
    c = m["counters"]
    inc = []
    depth = 4 if tier == "quick" else 5
    exhaustive = len(m["sets"].get("exhaustive_prefixes", [])) == len(OPS) ** 2 + len(OPS) and \
        not c.get("exhaustive_incomplete")
    if not exhaustive:
        inc.append("the exhaustive enumeration did not complete")
    reachable = {"00000", "00001", "00101", "01101", "00011", "00111", "01111", "11111"}
    seen = set(m["sets"].get("flagsets", []))
    if not reachable <= seen:
        inc.append(f"reachable flag sets never reached: {sorted(reachable - seen)}")
    if c.get("timeouts", 0):
        inc.append(f"{c.get('timeouts')} timeouts")
    if c.get("searches_compared", 0) < 10 or c.get("key_file_checks", 0) < 50:
        inc.append("too few end-of-workflow searches / key-file checks")
    cov = {
        "evaluations": c.get("cases", 0),
        "distinct_nontrivial": len(m["sets"].get("distinct", [])),
        "rule": f"all sequences over the 9 client operations {OPS} of length <= {depth} (PiBas), plus seeded random "
                "sequences of length 6..12 biased towards progress with the nine schemes rotated; every operation runs on "
                "a Service freshly loaded from disk against the live in-process server. Non-trivial = the sequence ran "
                "to its end with accept/refuse, persisted flags, directory snapshots and key bytes compared at every "
                "step; distinct = distinct (scheme, operation sequence).",
        "exhaustive": bool(exhaustive),
        "exhaustive_depth": depth,
        "operations": c.get("ops", 0),
        "accepted": c.get("ops.accepted", 0),
        "refused": c.get("ops.refused", 0),
        "flag_sets_reached": sorted(seen),
        "operation_x_flagset_pairs": len(m["sets"].get("op_x_flags", [])),
        "refused_operations_with_snapshot_compared": c.get("refused_snapshots_compared", 0),
        "persisted_flag_checks": c.get("persisted_flag_checks", 0),
        "key_file_checks": c.get("key_file_checks", 0),
        "searches_compared": c.get("searches_compared", 0),
        "distinct_traces": len(m["sets"].get("distinct_traces", [])),
        "commands_layer_sequences": c.get("command_sequences", 0),
        "commands_layer_operations": c.get("command_ops", 0),
        "alias_checks": c.get("alias_checks", 0),
    }
    return {"coverage": cov, "inconclusive": inc,
            "assumptions": ["model: five flags with the prerequisite relation of the handlers; the two upload flags are "
                            "re-derived from the server's reported state on every connect (rewriting service_meta with "
                            "exactly those flags is not counted as a change by a refused operation)",
                            "operations before any create-service use a well-formed but never-created sid"]}
