"""C17 - byte-level encodings round-trip (identifier blocks, splits, integers, xor, JSON/hex database).

Monitor shape: post-conditions evaluated on the real module-level functions over seeded, class-directed inputs
(zero-rich identifiers, capacity/size/block-size grids, length vectors with zero pieces at head/middle/tail).
"""
import json
import math

from vlib.common import fp, exc_site

LEVEL = "exploration"


def plan(tier, seed):
    n = 12 if tier == "quick" else 16
    per = 2500 if tier == "quick" else 1000000
    specs = [{"name": f"mix{i}", "index": i, "cases": per, "budget_s": 60 if tier == "quick" else 420}
             for i in range(n)]
    specs.append({"name": "grid", "index": 99, "grid": True, "cases": 0, "budget_s": 120 if tier == "quick" else 900})
    from vlib.common import both_interpreter_modes
    return both_interpreter_modes(specs)


def gen_identifier(rng, size, zero_rich):
    while True:
        if zero_rich:
            b = bytearray(size)
            for _ in range(rng.randint(1, max(1, size // 2))):
                b[rng.randrange(size)] = rng.choice([1, 0x80, 0xff, rng.randrange(1, 256)])
            b = bytes(b)
        else:
            b = rng.randbytes(size)
        if any(b):
            return b


def check_partition(du, acc, size, cap, n, extra, zero_rich, rng):
    ids = [gen_identifier(rng, size, zero_rich) for _ in range(n)]
    block_size = cap * size + extra
    case = {"size": size, "cap": cap, "n": n, "block_size": block_size, "ids": ids}
    sigbase = "partition" + (":custom-block-size" if extra else "")
    try:
        blocks = list(du.partition_identifiers_to_blocks(list(ids), cap, size, block_size_bytes=block_size)
                      if extra else du.partition_identifiers_to_blocks(list(ids), cap, size))
    except Exception as e:
        acc.violation(sigbase + ":raised", f"partition raised {type(e).__name__}: {e}", case)
        return
    acc.count("partition.cases")
    want_blocks = math.ceil(n / cap)
    keep = list(ids)
    list(du.partition_identifiers_to_blocks(ids, cap, size, block_size_bytes=block_size) if extra
         else du.partition_identifiers_to_blocks(ids, cap, size))
    if ids != keep:
        acc.violation(sigbase + ":input-mutated", "partition changed the caller's identifier list", case)
    if len(blocks) != want_blocks:
        acc.violation(sigbase + ":block-count", f"{len(blocks)} blocks, expected {want_blocks}", case)
    if any(len(b) != block_size for b in blocks):
        acc.violation(sigbase + ":block-length", f"block lengths {sorted(set(map(len, blocks)))} != {block_size}", case)
    got = []
    try:
        for b in blocks:
            got.extend(du.parse_identifiers_from_block_given_identifier_size(b, size))
    except Exception as e:
        acc.violation(sigbase + ":parse-raised:" + exc_site(e), f"parse raised {type(e).__name__}: {e}", case)
        return
    acc.count("parse.by_size")
    if got != ids:
        acc.violation(sigbase + ":parse-by-size", f"parse(partition(ids)) != ids (got {len(got)} of {len(ids)})", case)
        return
    # the caller owns what a call returns: scribbling on one answer must not change the answer to the same question
    # asked again (with the very same block object and with an equal copy of it)
    if blocks:
        acc.count("parse.repeat_after_scribble")
        try:
            for b in blocks:
                r = du.parse_identifiers_from_block_given_identifier_size(b, size)
                if isinstance(r, list):
                    r.append(b"\xee" * size)
                    r.reverse()
            again = []
            for j, b in enumerate(blocks):
                again.extend(du.parse_identifiers_from_block_given_identifier_size(b if j % 2 else bytes(bytearray(b)), size))
            if again != ids:
                acc.violation(sigbase + ":parse-repeat-differs",
                              f"parsing the same blocks again, after the caller changed the lists returned the first "
                              f"time, gives {len(again)} identifiers instead of the {len(ids)} stored", case)
                return
            if isinstance(blocks, list):
                first = du.partition_identifiers_to_blocks(list(ids), cap, size, block_size_bytes=block_size)
                if isinstance(first, list):
                    first.append(b"junk")
                    second = list(du.partition_identifiers_to_blocks(list(ids), cap, size, block_size_bytes=block_size))
                    if second != blocks:
                        acc.violation(sigbase + ":partition-repeat-differs",
                                      "partitioning the same identifiers again gives different blocks after the "
                                      "caller changed the first answer", case)
                        return
        except Exception as e:
            acc.violation(sigbase + ":repeat-raised:" + exc_site(e), f"{type(e).__name__}: {e}", case)
            return
    # two partitions in progress at once (the function may hand out lazy iterators): consumed alternately they give
    # the blocks they give when consumed one after the other
    if n and rng.random() < 0.3:
        acc.count("partition.interleaved")
        n2 = rng.choice([1, 2, cap - 1, cap + 1, rng.randint(1, 2 * cap + 1)])
        ids2 = [gen_identifier(rng, size, zero_rich) for _ in range(max(1, n2))]
        try:
            want2 = list(du.partition_identifiers_to_blocks(list(ids2), cap, size, block_size_bytes=block_size))
            it1 = iter(du.partition_identifiers_to_blocks(list(ids), cap, size, block_size_bytes=block_size))
            it2 = iter(du.partition_identifiers_to_blocks(list(ids2), cap, size, block_size_bytes=block_size))
            got1, got2 = [], []
            live = [(it1, got1), (it2, got2)]
            while live:
                for pair in list(live):
                    try:
                        pair[1].append(next(pair[0]))
                    except StopIteration:
                        live.remove(pair)
            if [bytes(x) for x in got1] != [bytes(x) for x in blocks] or [bytes(x) for x in got2] != [bytes(x) for x in want2]:
                acc.violation(sigbase + ":interleaved-partitions-differ",
                              f"two partitions consumed alternately ({n} and {len(ids2)} identifiers, same block size) give "
                              f"other blocks than the same partitions consumed one after the other", dict(case, ids2=ids2))
                return
        except Exception as e:
            acc.violation(sigbase + ":interleaved-raised:" + exc_site(e), f"{type(e).__name__}: {e}", case)
            return
    # identifiers / blocks handed over in caller-owned bytearrays: refusing the type is fine, a wrong answer or a
    # changed buffer is not
    if n and rng.random() < 0.15:
        acc.count("partition.bytearray_inputs")
        bufs = [bytearray(i) for i in ids]
        try:
            bl = list(du.partition_identifiers_to_blocks(bufs, cap, size, block_size_bytes=block_size))
            if [bytes(x) for x in bufs] != ids:
                acc.violation(sigbase + ":buffer-mutated", "partition changed a caller-owned bytearray identifier", case)
            elif [bytes(x) for x in bl] != [bytes(x) for x in blocks]:
                acc.violation(sigbase + ":bytearray-differs", "blocks built from bytearray identifiers differ", case)
            else:
                bb = [bytearray(x) for x in blocks]
                g = []
                for x in bb:
                    g.extend(bytes(y) for y in du.parse_identifiers_from_block_given_identifier_size(x, size))
                if g != ids or [bytes(x) for x in bb] != [bytes(x) for x in blocks]:
                    acc.violation(sigbase + ":bytearray-differs", "parsing bytearray blocks gives a different answer "
                                                                  "or changes the buffer", case)
        except (TypeError, ValueError):
            acc.count("partition.bytearray_refused")
    if block_size // cap == size:
        got2 = []
        try:
            for b in blocks:
                got2.extend(du.parse_identifiers_from_block_given_entry_count_in_one_block(b, cap))
        except Exception as e:
            acc.violation(sigbase + ":parse-raised:" + exc_site(e), f"parse raised {type(e).__name__}: {e}", case)
            return
        acc.count("parse.by_count")
        if got2 != ids:
            acc.violation(sigbase + ":parse-by-count", "parse by entry count != ids", case)
    acc.add("id_sizes", size)
    acc.add("caps", cap)


def check_split(bu, acc, rng):
    k = rng.randint(0, 8)
    lens = [rng.choice([0, 0, 1, 2, 3, rng.randint(0, 40)]) for _ in range(k)]
    shape = rng.random()
    if k and shape < 0.2:
        lens[-1] = 0
    elif k and shape < 0.3:
        lens[0] = 0
    x = rng.randbytes(sum(lens))
    case = {"x": x, "lens": lens}
    acc.count("split.cases")
    zclass = "tail-zero" if (lens and lens[-1] == 0) else ("zero" if 0 in lens else "nozero")
    acc.add("split_classes", zclass)
    try:
        pieces = bu.split_bytes_given_slice_len(x, list(lens))
    except Exception as e:
        acc.violation(f"split:raised:{zclass}", f"split raised {type(e).__name__}: {e}", case)
        return
    if b"".join(pieces) != x:
        acc.violation(f"split:concat:{zclass}", "concat(split(x)) != x", case)
    if [len(p) for p in pieces] != lens:
        acc.violation(f"split:piece-lengths:{zclass}", f"piece lengths {[len(p) for p in pieces]} != {lens}", case)
    elif isinstance(pieces, list):
        keep = list(pieces)
        pieces.append(b"junk")
        lens2 = list(lens)
        again = bu.split_bytes_given_slice_len(x, lens2)
        if list(again) != keep or lens2 != lens:
            acc.violation("split:repeat-differs", "splitting the same string again gives another answer after the caller "
                                                  "changed the first one (or the length vector was changed)", case)
    # mismatching length vector must be refused
    delta = rng.choice([-2, -1, 1, 2, 7])
    bad = list(lens) + [max(0, delta)] if delta > 0 else list(lens)
    xb = x if delta > 0 else x + b"\x01" * (-delta)
    if sum(bad) != len(xb):
        acc.count("split.refusals")
        try:
            r = bu.split_bytes_given_slice_len(xb, bad)
            acc.violation("split:mismatch-accepted", f"length mismatch accepted, returned {len(r)} pieces",
                          {"x": xb, "lens": bad})
        except ValueError:
            pass


def check_ints(bu, acc, rng):
    w = rng.choice([0, 1, 2, 3, 4, 8, 16, rng.randint(0, 64)])
    x = rng.choice([0, 1, 255, 256, (1 << (8 * w)) - 1 if w else 0, rng.getrandbits(8 * w) if w else 0])
    if x >= (1 << (8 * w)):
        x = (1 << (8 * w)) - 1
    case = {"x": x, "w": w}
    acc.count("int.cases")
    acc.add("int_widths", w)
    try:
        b = bu.int_to_bytes(x, w)
        if len(b) != w:
            acc.violation("int:width", f"len(int_to_bytes(x,{w})) = {len(b)}", case)
        if bu.int_from_bytes(b) != x:
            acc.violation("int:roundtrip", "int_from_bytes(int_to_bytes(x,w)) != x", case)
    except Exception as e:
        acc.violation("int:raised", f"{type(e).__name__}: {e}", case)
    y = rng.getrandbits(rng.randint(0, 300))
    b = bu.int_to_bytes(y)
    acc.count("int.minimal")
    if bu.int_from_bytes(b) != y or len(b) != (y.bit_length() + 7) // 8:
        acc.violation("int:minimal", "minimal-width conversion wrong", {"x": y})
    # too wide is refused loudly
    if w < 40:
        acc.count("int.refusals")
        try:
            r = bu.int_to_bytes(1 << (8 * w), w)
            acc.violation("int:overflow-accepted", f"value 2^{8 * w} accepted on {w} bytes: {r!r}", {"w": w})
        except OverflowError:
            pass
    raw = rng.randbytes(rng.randint(0, 40))
    if bu.int_to_bytes(bu.int_from_bytes(raw), len(raw)) != raw:
        acc.violation("int:bytes-roundtrip", "int_to_bytes(int_from_bytes(b), len b) != b", {"b": raw})
    acc.count("int.bytes_roundtrip")


def check_xor_pad(bu, acc, rng):
    n = rng.randint(0, 80)
    a, b = rng.randbytes(n), rng.randbytes(n)
    acc.count("xor.cases")
    x = bu.bytes_xor(a, b)
    if len(x) != n or bu.bytes_xor(x, b) != a or bu.bytes_xor(x, a) != b:
        acc.violation("xor:involution", "xor(xor(a,b),b) != a", {"a": a, "b": b})
    if x != bytes(p ^ q for p, q in zip(a, b)):
        acc.violation("xor:value", "xor differs from bytewise model", {"a": a, "b": b})
    if a != bytes(a) or bu.bytes_xor(a, b) != x:
        acc.violation("xor:mutates", "xor changed its input or is not deterministic", {"a": a, "b": b})
    m = rng.randint(0, 50)
    y = rng.randbytes(rng.randint(0, 50))
    z = bu.add_leading_zeros(y, m)
    acc.count("pad.cases")
    if len(z) != max(m, len(y)) or not z.endswith(y) or any(z[:len(z) - len(y)]):
        acc.violation("pad:leading-zeros", f"add_leading_zeros wrong for len {len(y)} -> {m}", {"y": y, "m": m})


def check_database_conversion(du, bu, acc, rng):
    nk = rng.randint(1, 5)
    db_json, want = {}, {}
    fmt = rng.choice(["hex", "int", "utf8", "raw"])
    for i in range(nk):
        kw = rng.choice(["kw", "ключ", "键", "a b", "é", "K", "re\u0301sume\u0301", "\u2126", "\u212b", "\uf900",
                         "\u1112\u1161\u11ab", "\ufb01", "I\u0307"]) + str(i) + rng.choice(["", "x", "é", "e\u0301"])
        ids = []
        for _ in range(rng.randint(1, 5)):
            if fmt == "utf8":
                s = "".join(rng.choice("abcXYZ019éß中") for _ in range(rng.randint(1, 6)))
                if rng.random() < 0.25:   # text that starts or ends with characters a codec might treat specially
                    s = rng.choice(["\ufeff", "\u200b", "\ufffe", " ", "\x00", "\u2028"]) + s
                elif rng.random() < 0.1:
                    s = s + rng.choice(["\ufeff", " ", "\x00", "\n"])
                ids.append(s.encode("utf8").hex())
            else:
                h = rng.randbytes(rng.randint(1, 12)).hex()
                ids.append(h.upper() if rng.random() < 0.3 else h)
        db_json[kw] = ids
    db_json = json.loads(json.dumps(db_json))
    acc.count("dbconv.cases")
    acc.add("dbconv_formats", fmt)
    try:
        db = du.convert_database_keyword_to_bytes(db_json)
    except Exception as e:
        acc.violation("dbconv:raised", f"{type(e).__name__}: {e}", {"db": db_json})
        return
    if list(db.keys()) != [k.encode("utf8") for k in db_json]:
        acc.violation("dbconv:keywords", "keywords are not the UTF-8 encodings (as written in the JSON file) in order",
                      {"db": db_json})
        return
    for kw, ids in db_json.items():
        got = db[kw.encode("utf8")]
        for h, b in zip(ids, got):
            out = bu.BytesConverter.convert_bytes(b, fmt)
            exp = {"hex": h.lower(), "int": int(h, 16), "utf8": bytes.fromhex(h).decode("utf8") if fmt == "utf8"
                   else None, "raw": bytes.fromhex(h)}[fmt]
            if out != exp:
                acc.violation(f"dbconv:format-{fmt}", f"{fmt} output {out!r} != {exp!r}", {"h": h})
        if len(got) != len(ids):
            acc.violation("dbconv:count", "identifier count changed", {"db": db_json})
    if du.get_total_size(db) != sum(len(v) for v in db_json.values()) or \
            du.get_distinct_keyword_count(db) != len(db_json) or \
            du.get_distinct_file_count(db) != len({bytes.fromhex(h) for v in db_json.values() for h in v}):
        acc.violation("dbconv:size-helpers", "database size helpers disagree with the model", {"db": db_json})
    acc.count("dbconv.refusals")
    try:
        bu.BytesConverter.convert_bytes(b"\x01", "base64")
        acc.violation("dbconv:unknown-format-accepted", "unknown output format accepted", {})
    except ValueError:
        pass


def check_chunks(lu, acc, rng):
    n, k = rng.randint(0, 60), rng.randint(1, 20)
    lst = list(range(n))
    ch = list(lu.chunks(lst, k))
    acc.count("chunks.cases")
    if [x for c in ch for x in c] != lst or len(ch) != math.ceil(n / k) or any(len(c) != k for c in ch[:-1]):
        acc.violation("chunks", "chunks() is not a partition into k-sized pieces", {"n": n, "k": k})


def run_shard(spec, acc, ctx):
    import toolkit.database_utils as du
    import toolkit.bytes_utils as bu
    import toolkit.list_utils as lu
    rng = ctx.rng
    if spec.get("grid"):
        # systematic sweep of the quantifier's ranges at small list lengths: sizes 1..40 x capacities 1..70
        for size in range(1, 41):
            for cap in list(range(1, 12)) + [16, 31, 32, 33, 64, 69, 70]:
                for n in (0, 1, cap - 1, cap, cap + 1, 2 * cap, 2 * cap + 1):
                    if n < 0 or n > 300:
                        continue
                    for extra in (0, 1, size, cap):
                        check_partition(du, acc, size, cap, n, extra, rng.random() < 0.5, rng)
                        acc.count("cases")
                        acc.add("distinct", fp("g", size, cap, n, extra))
            if ctx.out_of_time():
                acc.note("grid stopped early at size %d" % size)
                break
        # block sizes far beyond the data (every block still has the same, requested length)
        for size, cap, n in ((8, 4, 10), (1, 1, 3), (16, 3, 7), (4, 64, 65), (40, 70, 1)):
            for extra in (65535, 65536, 65537, 100000, (1 << 17) + 1, (1 << 20) + 3):
                check_partition(du, acc, size, cap, n, extra, False, rng)
                acc.count("partition.huge_block_sizes")
        try:
            list(du.partition_identifiers_to_blocks([b"ab"], 2, 2, block_size_bytes=3))
            acc.violation("partition:small-block-accepted", "block smaller than cap*size accepted", {})
        except ValueError:
            acc.count("partition.refusals")
        acc.sample({"kind": "grid", "sizes": "1..40", "caps": "1..11,16,31..33,64,69,70", "n": "0,1,cap-1..2cap+1",
                    "extra_block_bytes": [0, 1, "size", "cap"]})
        return
    for i in range(spec["cases"]):
        if ctx.out_of_time():
            acc.note("time budget hit at %d" % i)
            break
        size, cap = rng.randint(1, 40), rng.randint(1, 70)
        n = rng.choice([rng.randint(0, 12), rng.randint(0, 300), cap * rng.randint(0, 4) + rng.choice([-1, 0, 1])])
        n = max(0, min(300, n))
        extra = rng.choice([0, 0, 1, rng.randint(0, 2 * size), cap])
        if i % 97 == 5:
            extra = rng.choice([65535, 65536, 65537, rng.randint(60000, 140000)])
            n = min(n, 6)
        check_partition(du, acc, size, cap, n, extra, rng.random() < 0.6, rng)
        for name, fn in (("split", lambda: check_split(bu, acc, rng)), ("int", lambda: check_ints(bu, acc, rng)),
                         ("xor", lambda: check_xor_pad(bu, acc, rng))) + \
                ((("dbconv", lambda: check_database_conversion(du, bu, acc, rng)),
                  ("chunks", lambda: check_chunks(lu, acc, rng))) if i % 4 == 0 else ()):
            try:
                fn()
            except Exception as e:
                acc.violation(f"{name}:raised:" + exc_site(e), f"{type(e).__name__}: {e}", {"checker": name})
        acc.count("cases")
        acc.add("distinct", fp("m", spec["index"], i))
        if i == 0:
            acc.sample({"kind": "mix", "partition": {"size": size, "cap": cap, "n": n, "extra_block_bytes": extra}})


def replay(case, acc, ctx):
    import toolkit.database_utils as du
    import toolkit.bytes_utils as bu
    if "lens" in case:
        x, lens = case["x"], case["lens"]
        try:
            pieces = bu.split_bytes_given_slice_len(x, list(lens))
            if [len(p) for p in pieces] != lens or b"".join(pieces) != x:
                acc.violation("split:replay", f"pieces {[len(p) for p in pieces]} for {lens}", case)
        except ValueError:
            if sum(lens) == len(x):
                acc.violation("split:replay", "refused matching lengths", case)
    elif "ids" in case:
        ids = case["ids"]
        blocks = list(du.partition_identifiers_to_blocks(list(ids), case["cap"], case["size"],
                                                         block_size_bytes=case["block_size"]))
        got = []
        for b in blocks:
            got.extend(du.parse_identifiers_from_block_given_identifier_size(b, case["size"]))
        if got != ids or len(blocks) != math.ceil(len(ids) / case["cap"]):
            acc.violation("partition:replay", "round trip failed", case)
    acc.count("replayed")


def finish(m, tier, seed):
    c = m["counters"]
    inconclusive = []
    for k, lo in (("partition.cases", 5000), ("parse.by_count", 300), ("split.cases", 2000), ("int.cases", 2000),
                  ("xor.cases", 2000), ("dbconv.cases", 500), ("split.refusals", 300)):
        if c.get(k, 0) < lo:
            inconclusive.append(f"{k} = {c.get(k, 0)} < {lo}")
    if "tail-zero" not in m["sets"].get("split_classes", []):
        inconclusive.append("no length vector with a trailing zero was generated")
    if len(m["sets"].get("id_sizes", [])) < 40 or len(m["sets"].get("caps", [])) < 60:
        inconclusive.append("identifier sizes / capacities not covered")
    for fn in ("toolkit/database_utils.py:partition_identifiers_to_blocks",
               "toolkit/bytes_utils.py:split_bytes_given_slice_len"):
        if fn not in m["sets"].get("functions_entered", []):
            inconclusive.append(fn + " never entered")
    cov = {
        "evaluations": c.get("cases", 0),
        "distinct_nontrivial": len(m["sets"].get("distinct", [])),
        "rule": "one case = one seeded draw of (identifier size 1..40, capacity 1..70, list length 0..300, extra block "
                "bytes) + one split vector + one int/width + one xor pair (+ every 4th: a JSON database and chunks); "
                "the grid shard sweeps sizes 1..40 x 18 capacities x 7 boundary lengths x 4 block sizes. All cases "
                "evaluate their post-conditions (non-trivial); distinct = distinct generator coordinates.",
        "exhaustive": False,
        "per_function_cases": {k: v for k, v in c.items() if not k.startswith("insitu.")},
        "identifier_sizes_seen": len(m["sets"].get("id_sizes", [])),
        "capacities_seen": len(m["sets"].get("caps", [])),
        "split_classes_seen": sorted(m["sets"].get("split_classes", [])),
        "int_widths_seen": len(m["sets"].get("int_widths", [])),
        "output_formats_seen": sorted(m["sets"].get("dbconv_formats", [])),
    }
    return {"coverage": cov, "inconclusive": inconclusive,
            "assumptions": ["identifiers are fixed-size and not all-zero (the property's domain)",
                            "bytes_xor is exercised on equal-length operands (how the schemes call it)"]}
