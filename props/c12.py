"""C12 - overlapping connections to one service are serialised and cannot roll state back.

Monitor shape: offline predicates over a recorded history, produced by a harness that IS the scheduler. Up to three
raw websocket connections on one sid each run a short script over {config, upload index e_j, search}; at every
logical step the harness fires exactly one enabled event - open_j, next request of j, close_j, or the release of a
pending server-side cleanup delay (held by a gate) - then settles, so that a premature reply is observed before
the next event.  Reader tasks stamp every received message with the logical step.  Checked on the history:
  M1  no reply to a request arrives on connection j while an earlier-opened connection i is still open
  M2  the state told to a fresh probe connection afterwards is >= every state whose transition was acknowledged
  M3  the probe's search is answered from the acknowledged index; at most one index was ever acknowledged
  M4  the probe connection is accepted (init echo) and the service is not bricked
  M5  (a third of the schedules) a served connection on ANOTHER service id exists meanwhile: closing it mid-schedule
      must not admit a waiter of this service, and this service's closes must not admit a newcomer to the other one
"""
import asyncio
import itertools
import pickle

import websockets

from vlib import wsharness as wh
from vlib.common import exc_site, fp, retry_on_timeout

LEVEL = "exploration"
SHARD_TIMEOUT = {"quick": 280, "thorough": 1700}
SCRIPTS = [[], ["config"], ["upload"], ["search"], ["config", "upload"], ["upload", "search"], ["config", "search"]]
POLICIES = ["immediate", "lag1", "end", "one-late"]
KEPT = [([["search"], ["config"], [], ["search"]], [0, 3, 2, 3, 0, 1, 3, 1, 2, 1, 0]),
        ([["search"], ["config"], [], ["search"]], [0, 3, 2, 3, 0, 1, 1, 3, 2, 1, 0]),
        ([["search"], ["upload"], ["config"], ["search"]], [0, 3, 2, 3, 0, 1, 3, 1, 2, 2, 1, 0])]
SETTLE = 0.004
WORKERS_PER_CORE = 2   # the shards spend most of their time in settle sleeps


def plan(tier, seed):
    specs = []
    pairs = list(itertools.product(range(len(SCRIPTS)), repeat=2))
    nsh = 10 if tier == "quick" else 14
    for k in range(nsh):
        specs.append({"name": f"two-{k}", "kind": "two", "pairs": pairs[k::nsh],
                      "budget_s": 150 if tier == "quick" else 1200,
                      "policies": POLICIES if tier == "thorough" else None})
    if tier == "quick":
        # three connections, every interleaving, for the script triples where admission ORDER matters most:
        # A is served, B waits (with or without a request), C arrives around A's close
        for ti, (tr, every) in enumerate([((["config"], [], ["config"]), 1), ((["config"], ["search"], ["upload"]), 3)]):
            for part in range(4):
                specs.append({"name": f"three-exh-{ti}-{part}", "kind": "three_exh", "scripts": tr, "part": part,
                              "parts": 4, "every": every, "budget_s": 150})
    # a connection on ANOTHER service id closes at every possible point of the schedule while its cleanup delay is
    # held back (released one step late, or only at the end): the server's registry lock is global, so that cleanup
    # stalls admissions of the service under test at exactly the moments the enumeration places it
    BY = [((["config", "upload"], []), 1), ((["config", "upload"], ["search"]), 1), ((["config"], ["upload"]), 1),
          (([], [], ["config"]), 1), (([], ["search"], ["upload"]), 3 if tier == "quick" else 1)]
    for bi, (tr, every) in enumerate(BY):
        parts = 4
        for part in range(parts):
            specs.append({"name": f"other-service-exh-{bi}-{part}", "kind": "by_exh", "scripts": [list(x) for x in tr],
                          "part": part, "parts": parts, "every": every, "budget_s": 200 if tier == "quick" else 1200})
    # idle time (the event loop's clock is pushed forward between events): timers of the server and of the websockets
    # library fire as they would after that much real time
    IDLE = [((["config", "upload"], ["upload"]), 2, 1), ((["upload"], ["config", "upload"]), 2, 1),
            ((["config"], [], ["config"]), 4, 24 if tier == "quick" else 1), (([], ["search"], ["upload"]), 4, 36 if tier == "quick" else 2)]
    for ii, (tr, parts, every) in enumerate(IDLE):
        for part in range(parts):
            specs.append({"name": f"idle-exh-{ii}-{part}", "kind": "idle_exh", "scripts": [list(x) for x in tr],
                          "part": part, "parts": parts, "every": every, "budget_s": 200 if tier == "quick" else 1200})
    for k in range(4 if tier == "quick" else 16):
        specs.append({"name": f"three-{k}", "kind": "three", "index": k, "of": 4 if tier == "quick" else 16,
                      "walks": 60 if tier == "quick" else 1500, "exhaustive1": tier == "thorough",
                      "budget_s": 150 if tier == "quick" else 1400})
    return specs


class Fixture:
    def __init__(self):
        import schemes
        L = schemes.load_sse_module("CJJ14.PiBas")
        base = dict(L.SSEConfig.get_default_config())
        self.cfg = dict(base, salt="cc" * 16)
        sch = L.SSEScheme(base)
        self.key = sch.KeyGen()
        self.kw = b"keyword"
        self.ids = [[bytes([j + 1, i + 1]) * 4 for i in range(2 + j)] for j in range(5)]
        self.edb = [sch.EDBSetup(self.key, {self.kw: list(v)}).serialize() for v in self.ids]
        self.token = sch.TokenGen(self.key, self.kw).serialize()


class Conn:
    def __init__(self, idx, script):
        self.idx, self.script = idx, list(script)
        self.next_req = 0
        self.ws = None
        self.open_step = self.close_step = self.server_closed_step = None
        self.log = []          # (step, kind, detail)
        self.reader = None
        self.sent = []         # (step, request)

    @property
    def is_closed(self):
        return self.close_step is not None or self.server_closed_step is not None


class Scheduler:
    def __init__(self, acc, ctx, server, fx):
        self.acc, self.ctx, self.server, self.fx = acc, ctx, server, fx
        self.n = 0

    async def reader(self, c):
        try:
            async for raw in c.ws:
                d = pickle.loads(raw)
                t = d.get("type")
                if t == "init":
                    try:
                        st = pickle.loads(d["content"]).get("state")
                    except Exception:
                        st = "garbled"
                    c.log.append((self.t, "init", st))
                elif t == "control":
                    c.log.append((self.t, "control", None))
                else:
                    ty, verdict, payload = wh.decode_reply(d)
                    if verdict == "result":
                        which = [j for j, v in enumerate(self.fx.ids) if payload == v]
                        payload = which[0] if which else "unknown"
                    else:
                        payload = None
                    c.log.append((self.t, "reply", (ty, verdict, payload)))
        except websockets.ConnectionClosed:
            pass
        except Exception as e:  # noqa
            c.log.append((self.t, "reader-error", repr(e)))
        if c.server_closed_step is None and c.close_step is None:
            c.server_closed_step = self.t
        c.log.append((self.t, "closed", None))

    async def settle(self, gate, policy):
        await asyncio.sleep(SETTLE)
        if policy == "immediate":
            for _ in range(3):
                if gate.release_all():
                    await asyncio.sleep(SETTLE)

    async def run(self, scripts, order, policy, bystander=None, warps=None):
        """order: list of connection indices; the k-th occurrence of j fires j's k-th event (open, requests.., close).
        bystander: None | "hold" | "close@k" - a connection on ANOTHER service id that is open (and served) before the
        schedule starts; "close@k" closes it just before event k, "hold" keeps it open to the end, where a second
        connection to that other service must still be made to wait (M1 for the other service)."""
        acc, fx = self.acc, self.fx
        self.n += 1
        acc.count("cases")
        acc.count("policy." + policy)
        sid = "%064x" % (self.ctx.rng.getrandbits(255) + 1)
        other_sid = sid[:-2] + ("%02x" % ((int(sid[-2:], 16) + 1) % 256))
        by = by2 = None
        by_close_at = None
        if bystander:
            acc.count("bystander." + bystander.split("@")[0])
            if "@" in bystander:
                by_close_at = int(bystander.split("@")[1])
        proxy = self.server.env["proxy"]
        gate = wh.Gate()
        proxy.gate = gate
        conns = [Conn(j, s) for j, s in enumerate(scripts)]
        self.t = 0
        case = {"scripts": [list(s) for s in scripts], "order": list(order), "gate_policy": policy,
                "bystander": bystander, "warps": {str(k): v for k, v in (warps or {}).items()} or None}
        loop = asyncio.get_running_loop()
        if warps:
            acc.count("schedules_with_idle_time")
        history = []
        pos = [0] * len(conns)
        max_open = 0
        opened_order = []
        lagged = 0
        try:
            if bystander:
                by = wh.RawConn(self.server.uri, other_sid)
                await by.open(5)
                await by.send("config", pickle.dumps(fx.cfg))
                ev = await by.next_event(5)
                if not (ev[0] == "msg" and wh.decode_reply(ev[1])[1] == "ok"):
                    acc.note(f"bystander configuration not acknowledged: {str(ev)[:80]}")
                history.append((0, "bystander-open+config"))
            import gc
            gc_points = self.ctx.rng.sample(range(len(order) + 1), min(2, len(order) + 1)) \
                if self.ctx.rng.random() < 0.15 else []
            for n_ev, j in enumerate(order):
                if n_ev in gc_points:
                    # the garbage collector runs now (as it may at any allocation): a full pass while connections are open
                    # promotes their objects to the oldest generation, so that they are finalised LATER than the objects
                    # of connections opened afterwards (see the staged passes before the probe)
                    gc.collect()
                    history.append((self.t, "gc"))
                    acc.count("garbage_collections_at_schedule_points")
                if warps and n_ev in warps and hasattr(loop, "warp"):
                    # idle time: the clock jumps, every timer due in the meantime fires now
                    loop.warp(warps[n_ev])
                    history.append((self.t, f"idle {warps[n_ev]}s"))
                    acc.count("idle_seconds_inserted", int(warps[n_ev]))
                    await self.settle(gate, policy)
                    await asyncio.sleep(SETTLE)
                if by is not None and by_close_at == n_ev:
                    await by.close()
                    history.append((self.t, "bystander-close"))
                    by = None
                    await self.settle(gate, policy)
                self.t += 1
                c = conns[j]
                k = pos[j]
                pos[j] += 1
                seq_before = gate.total
                if policy == "lag1" and lagged:
                    gate.release_all()
                if k == 0:
                    c.ws = await asyncio.wait_for(websockets.connect(self.server.uri, max_size=None), 5)
                    c.open_step = self.t
                    opened_order.append(j)
                    await c.ws.send(pickle.dumps({"type": "init", "sid": sid}))
                    c.reader = asyncio.ensure_future(self.reader(c))
                    history.append((self.t, f"open{j}"))
                elif k <= len(c.script):
                    req = c.script[k - 1]
                    history.append((self.t, f"{req}{j}"))
                    c.sent.append((self.t, req))
                    if c.is_closed:
                        pass
                    else:
                        try:
                            if req == "config":
                                await c.ws.send(pickle.dumps({"type": "config", "sid": sid, "content": pickle.dumps(fx.cfg)}))
                            elif req == "upload":
                                await c.ws.send(pickle.dumps({"type": "upload_edb", "sid": sid, "content": fx.edb[j]}))
                            else:
                                await c.ws.send(pickle.dumps({"type": "token", "sid": sid, "content": fx.token,
                                                              "token_digest": b"d"}))
                        except websockets.ConnectionClosed:
                            pass
                else:
                    history.append((self.t, f"close{j}"))
                    if c.close_step is None:
                        c.close_step = self.t   # mark BEFORE awaiting the close handshake
                    try:
                        await asyncio.wait_for(c.ws.close(), 3)
                    except Exception:
                        pass
                await self.settle(gate, policy)
                lagged = gate.pending()
                if policy == "one-late" and lagged:
                    # only sleepers that were already pending BEFORE this step's event are eligible
                    # after this step's event: the sleeper that wakes first in virtual time (a back-off before a
                    # 1 s cleanup delay) ends now; whoever arrived during this step is already queued ahead of it
                    if gate.release_earliest(before_seq=seq_before):
                        await asyncio.sleep(SETTLE)
                    lagged = gate.pending()
                max_open = max(max_open, sum(1 for x in conns if x.open_step and not x.is_closed))
            # ---- the other service: its open connection must still make a newcomer wait
            if by is not None:
                by2 = wh.RawConn(self.server.uri, other_sid)
                await by2.open(5)
                await by2.send("token", fx.token, token_digest=b"b")
                for _ in range(3):
                    await asyncio.sleep(SETTLE)
                    if gate.release_all():
                        await asyncio.sleep(SETTLE)
                acc.count("bystander_waiter_probes")
                try:
                    ev = await by2.next_event(0.03)
                    acc.violation("overlap:reply-while-earlier-connection-open:other-service",
                                  f"a second connection to ANOTHER service got {ev[0]} "
                                  f"{wh.decode_reply(ev[1])[:2] if ev[0] == 'msg' else ev[1]} while that service's first "
                                  f"connection, opened before the schedule, was still open",
                                  dict(case, history=history, logs=[x.log for x in conns]))
                    return
                except wh.Timeout:
                    pass
                if not by2.controls:
                    acc.count("bystander_waiter_without_control")
                await by.close()
                await by2.close()
                by = by2 = None
            # ---- end of the schedule: close everything, let every cleanup run
            self.t += 1
            for c in conns:
                if c.ws is not None and c.close_step is None:
                    c.close_step = self.t
                    try:
                        await asyncio.wait_for(c.ws.close(), 3)
                    except Exception:
                        pass
            end_step = self.t
            for _ in range(12):
                await asyncio.sleep(SETTLE)
                if not gate.release_all() and _ > 4:
                    break
            proxy.gate = None
            gate.release_all()
            await asyncio.sleep(SETTLE)
            # ---- the history, M1
            acked_state, acked_idx = 0, set()
            waiter_existed = False
            for c in conns:
                for (t, kind, det) in c.log:
                    if kind == "control":
                        waiter_existed = True
                    if kind == "reader-error":
                        acc.count("reader_errors")
                    if kind == "closed" and c.server_closed_step == t and c.close_step is None and \
                            any(ts <= t for ts, _ in c.sent):
                        # the server closes a connection only to refuse a request it has just processed: that is a
                        # reply to a request too (the unchanged server never delivers {'ok': False})
                        kind, det = "reply", ("refusal-by-closure", "refused", None)
                    if kind != "reply":
                        continue
                    acc.count("replies")
                    ty, verdict, payload = det
                    if verdict == "ok" and ty == "config":
                        acked_state = max(acked_state, 1)
                    if verdict == "ok" and ty == "upload_edb":
                        acked_state = 2
                        acked_idx.add(c.idx)
                    # M1: every connection opened before c must be closed by step t
                    for i in opened_order[:opened_order.index(c.idx)]:
                        ci = conns[i]
                        closed_at = min(x for x in (ci.close_step, ci.server_closed_step, 10 ** 9) if x is not None)
                        if closed_at > t and t <= end_step - 1:
                            acc.violation("overlap:reply-while-earlier-connection-open",
                                          f"connection {c.idx} got a reply ({ty} {verdict}) at step {t} while connection {i}, "
                                          f"opened earlier (step {ci.open_step}), was still open (closed at step "
                                          f"{closed_at if closed_at < 10 ** 9 else 'never'})",
                                          dict(case, history=history, logs=[x.log for x in conns]))
                            return
            if waiter_existed or any(len([1 for x in conns if x.open_step]) > 1 for _ in [0]):
                acc.count("schedules_with_overlap")
            if waiter_existed:
                acc.count("schedules_with_waiter")
            if len(acked_idx) > 1:
                acc.violation("overlap:two-indexes-acknowledged",
                              f"uploads of connections {sorted(acked_idx)} were both acknowledged",
                              dict(case, history=history, logs=[x.log for x in conns]))
                return
            if gc_points:
                # young objects are collected first, the oldest generation last - each pass followed by time for whatever
                # the finalisers started
                for g_ in (0, 1, 2):
                    gc.collect(g_)
                    await self.settle(gate, policy)
                    await asyncio.sleep(SETTLE)
                acc.count("staged_garbage_collections_before_the_probe")
            # ---- probe: M2, M3, M4
            probe = wh.RawConn(self.server.uri, sid)
            try:
                await probe.open(5)
            except Exception as e:
                acc.violation("overlap:probe-not-accepted", f"probe connection failed: {type(e).__name__}: {e}",
                              dict(case, history=history))
                return
            acc.count("probes")
            st = probe.init_state
            if not isinstance(st, int):
                acc.violation("overlap:probe-not-accepted", f"probe connection got no proper init echo: {st!r}",
                              dict(case, history=history, logs=[x.log for x in conns]))
                await probe.close()
                return
            if st < acked_state:
                acc.violation("overlap:state-rolled-back",
                              f"the probe connection was told state {st} although a transition to state {acked_state} had "
                              f"been acknowledged", dict(case, history=history, logs=[x.log for x in conns]))
                await probe.close()
                return
            if acked_idx:
                await probe.send("token", fx.token, token_digest=b"p")
                try:
                    ev = await probe.next_event(5)
                except wh.Timeout:
                    acc.count("timeouts")
                    await probe.close()
                    return
                ok = False
                if ev[0] == "msg":
                    ty, verdict, payload = wh.decode_reply(ev[1])
                    ok = verdict == "result" and payload == fx.ids[next(iter(acked_idx))]
                acc.count("probe_searches")
                if not ok:
                    acc.violation("overlap:acknowledged-index-not-searched",
                                  f"after the schedule a search is not answered from the acknowledged index of connection "
                                  f"{sorted(acked_idx)}: {ev[0]} {str(ev[1])[:80]}",
                                  dict(case, history=history, logs=[x.log for x in conns]))
                    await probe.close()
                    return
            await probe.close()
            await asyncio.sleep(SETTLE)
            outcome = [[(kind, det) for (_, kind, det) in c.log if kind in ("reply", "init")] for c in conns]
            acc.add("distinct", fp(case))
            acc.add("distinct_outcomes", fp(outcome))
            acc.add("max_open", max_open)
            if self.n <= 2:
                acc.sample({"scripts": case["scripts"], "order": case["order"], "gate_policy": policy,
                            "history": history, "per_connection_log": [[list(map(str, e)) for e in c.log] for c in conns],
                            "probe_state": st})
        except asyncio.TimeoutError:
            acc.count("timeouts")
        except Exception as e:
            acc.count("harness_errors")
            acc.note(f"harness error {exc_site(e)} {type(e).__name__}: {e}")
        finally:
            proxy.gate = None
            gate.release_all()
            for b in (by, by2):
                if b is not None:
                    await b.close()
            for c in conns:
                if c.ws is not None:
                    try:
                        await asyncio.wait_for(c.ws.close(), 2)
                    except Exception:
                        pass
                if c.reader is not None:
                    c.reader.cancel()
            await asyncio.sleep(0)


def interleavings(counts):
    """All merges of sequences of the given lengths (multiset permutations of connection indices)."""
    total = sum(counts)
    out = []

    def rec(prefix, left):
        if len(prefix) == total:
            out.append(list(prefix))
            return
        for j, n in enumerate(left):
            if n:
                left[j] -= 1
                prefix.append(j)
                rec(prefix, left)
                prefix.pop()
                left[j] += 1
    rec([], list(counts))
    return out


async def amain(spec, acc, ctx):
    wh.setup_env()
    server = await wh.Server().start()
    fx = Fixture()
    sch = Scheduler(acc, ctx, server, fx)
    rng = ctx.rng

    def stop():
        return ctx.out_of_time() or acc.counters.get("timeouts", 0) > 3 or acc.n_violations > 10 or \
            acc.counters.get("harness_errors", 0) > 5

    if spec["kind"] == "two":
        done = True
        for (a, b) in spec["pairs"]:
            scripts = [SCRIPTS[a], SCRIPTS[b]]
            for n, order in enumerate(interleavings([len(s) + 2 for s in scripts])):
                pols = spec["policies"] or [POLICIES[(n + a + b) % 4], POLICIES[(n + a + b + 2) % 4]]
                for pi, policy in enumerate(pols):
                    if stop():
                        done = False
                        break
                    bys = None
                    if policy != "end" and pi == 0 and n % 4 == 0:
                        bys = "hold" if n % 8 == 0 else f"close@{(n // 8) % len(order)}"
                    await retry_on_timeout(acc, lambda: sch.run(scripts, order, policy, bys))
        if done:
            acc.add("two_conn_script_pairs_done", len(spec["pairs"]))
        else:
            acc.count("enumeration_incomplete")
    elif spec["kind"] == "by_exh":
        scripts = spec["scripts"]
        orders = interleavings([len(x) + 2 for x in scripts])[spec["part"]::spec["parts"]][::spec.get("every", 1)]
        n_runs = 0
        for order in orders:
            for k in range(1, len(order)):
                for pol in (("one-late", "end") if len(scripts) == 2 or ctx.tier != "quick" else ("one-late",)):
                    if stop():
                        acc.count("enumeration_incomplete")
                        break
                    await retry_on_timeout(acc, lambda: sch.run(scripts, order, pol, f"close@{k}"))
                    n_runs += 1
        acc.count("other_service_close_points_enumerated", n_runs)
    elif spec["kind"] == "idle_exh":
        # idle time at every event boundary: one long pause (12 s) in two-connection schedules; two pauses (3 s + 3 s,
        # 6 s + 2.6 s) in three-connection schedules where the second waiter arrives later than the first
        scripts = spec["scripts"]
        orders = interleavings([len(x) + 2 for x in scripts])[spec["part"]::spec["parts"]]
        n_runs = 0
        for order in orders:
            plans = [{k: 12.0} for k in range(1, len(order))] if len(scripts) == 2 else \
                [{k1: a, k2: b} for k1 in range(1, len(order)) for k2 in range(k1 + 1, len(order))
                 for (a, b) in ((3.0, 3.0), (6.0, 2.6))][::spec.get("every", 1)]
            for wp in plans:
                if stop():
                    acc.count("enumeration_incomplete")
                    break
                await retry_on_timeout(acc, lambda: sch.run(scripts, order, "immediate", None, wp))
                n_runs += 1
        acc.count("idle_time_placements_enumerated", n_runs)
    elif spec["kind"] == "three_exh":
        scripts = spec["scripts"]
        orders = interleavings([len(x) + 2 for x in scripts])[spec["part"]::spec["parts"]][::spec.get("every", 1)]
        for n, order in enumerate(orders):
            if stop():
                acc.count("enumeration_incomplete")
                break
            pol = POLICIES[n % len(POLICIES)]
            await retry_on_timeout(acc, lambda: sch.run(scripts, order, pol))
        acc.count("three_conn_exhaustive_interleavings", len(orders))
    else:
        if spec.get("exhaustive1"):
            # three connections, <= 1 request each: every interleaving, shards split the script triples
            singles = [[], ["config"], ["upload"], ["search"]]
            triples = list(itertools.product(range(4), repeat=3))[spec["index"]::spec["of"]]
            for tr in triples:
                scripts = [singles[x] for x in tr]
                for n, order in enumerate(interleavings([len(s) + 2 for s in scripts])):
                    if stop():
                        acc.count("enumeration_incomplete")
                        break
                    await retry_on_timeout(acc, lambda: sch.run(scripts, order, POLICIES[n % 4]))
            acc.add("three_conn_triples_done", len(triples))
        if spec["index"] == 0:
            # schedules that once exposed a defect are kept (here: a fourth connection opening around the close of a
            # refused one overtook an earlier waiter), with and without the other-service connection
            for (scr, order) in KEPT:
                for pol in ("one-late", "immediate", "lag1"):
                    for bys in (None, "hold"):
                        await retry_on_timeout(acc, lambda: sch.run(scr, order, pol, bys))
                        acc.count("kept_schedules")
        for w in range(spec["walks"]):
            if stop():
                break
            k = 3 if w % 4 else 4      # every fourth walk: four connections (a queue of three waiters)
            scripts = [rng.choice(SCRIPTS if k == 3 else SCRIPTS[:4]) for _ in range(k)]
            if k == 4:
                acc.count("four_conn_walks")
            if w % 3 == 0:
                scripts[0] = ["config", "upload"]
            counts = [len(s) + 2 for s in scripts]
            order = [j for j, n in enumerate(counts) for _ in range(n)]
            rng.shuffle(order)
            if w % 2 == 0:
                # bias: connection 0 opens first so that the others overlap with an active one
                order.remove(0)
                order.insert(0, 0)
            pol = rng.choice(POLICIES)
            bys = None
            if pol != "end" and w % 3 == 1:
                bys = rng.choice(["hold", f"close@{rng.randrange(len(order))}"])
            warps = None
            if w % 3 == 2:
                # idle time between events: up to 18 s in all (below the 20 s keep-alive period of the websockets)
                warps, total = {}, 0.0
                for kk in sorted(rng.sample(range(1, len(order)), min(len(order) - 1, rng.randint(1, 3)))):
                    sec = rng.choice([2.6, 3.5, 5.5, 6.0, 11.5, 12.0])
                    if total + sec <= 18:
                        warps[kk] = sec
                        total += sec
            await retry_on_timeout(acc, lambda: sch.run(scripts, order, pol, bys, warps))
            acc.count("three_conn_walks")
    await server.stop()


def run_shard(spec, acc, ctx):
    wh.run_warped(lambda: amain(spec, acc, ctx))


def replay(case, acc, ctx):
    async def go():
        wh.setup_env()
        server = await wh.Server().start()
        warps = {int(k): v for k, v in (case.get("warps") or {}).items()} or None
        await Scheduler(acc, ctx, server, Fixture()).run(case["scripts"], case["order"], case["gate_policy"],
                                                         case.get("bystander"), warps)
        await server.stop()
    wh.run_warped(go)
    acc.count("replayed")


def finish(m, tier, seed):
    c = m["counters"]
    inc = []
    pairs_done = sum(int(x) for x in m["sets"].get("two_conn_script_pairs_done", []))
    exhaustive = not c.get("enumeration_incomplete")
    if not exhaustive:
        inc.append("the two-connection enumeration did not complete")
    if c.get("schedules_with_waiter", 0) < 50:
        inc.append(f"only {c.get('schedules_with_waiter', 0)} schedules in which a connection had to wait")
    mo = max([int(x) for x in m["sets"].get("max_open", [0])] or [0])
    if mo < 2:
        inc.append("no schedule had two simultaneously open connections")
    if c.get("timeouts", 0) or c.get("harness_errors", 0):
        inc.append(f"{c.get('timeouts', 0)} timeouts, {c.get('harness_errors', 0)} harness errors")
    if c.get("probe_searches", 0) < 30:
        inc.append("too few probe searches")
    cov = {
        "evaluations": c.get("cases", 0),
        "distinct_nontrivial": len(m["sets"].get("distinct", [])),
        "rule": "schedule = (scripts of 2 or 3 connections over {config, upload e_j, search}, an interleaving of their "
                "open / request / close events, a policy for releasing the server's cleanup delays: immediately, one "
                "event later, only at the end). Two connections with scripts of <= 2 requests: every interleaving of every "
                "script pair (quick: two of the three gate policies per interleaving, rotated; thorough: all three); three "
                "connections: seeded random walks (thorough: every interleaving for <= 1 request each). Non-trivial = the "
                "schedule ran to its end, M1-M4 evaluated on its history; distinct = distinct (scripts, order, policy).",
        "exhaustive": bool(exhaustive),
        "schedules": c.get("cases", 0),
        "distinct_outcome_traces": len(m["sets"].get("distinct_outcomes", [])),
        "max_simultaneously_open_connections": mo,
        "schedules_in_which_a_connection_waited": c.get("schedules_with_waiter", 0),
        "replies_checked_for_M1": c.get("replies", 0),
        "probe_connections": c.get("probes", 0),
        "probe_searches": c.get("probe_searches", 0),
        "gate_policies": {p: c.get("policy." + p, 0) for p in POLICIES},
        "schedules_with_a_served_connection_on_another_service": {
            "held_to_the_end": c.get("bystander.hold", 0), "closed_mid_schedule": c.get("bystander.close", 0),
            "newcomer_to_the_other_service_kept_waiting": c.get("bystander_waiter_probes", 0)},
        "other_service_close_points_enumerated": c.get("other_service_close_points_enumerated", 0),
        "schedules_with_idle_time": c.get("schedules_with_idle_time", 0),
        "idle_seconds_inserted": c.get("idle_seconds_inserted", 0),
        "idle_time_placements_enumerated": c.get("idle_time_placements_enumerated", 0),
        "three_connection_walks": c.get("three_conn_walks", 0),
        "three_connection_interleavings_enumerated": c.get("three_conn_exhaustive_interleavings", 0),
    }
    return {"coverage": cov, "inconclusive": inc,
            "assumptions": ["events are whole messages and whole suspension points (the handlers contain no await); TCP "
                            "segments are not reordered", "settling uses a short real sleep: a late observation can hide "
                            "an overlap but cannot invent one (closing is monotone)",
                            "'still open' means the harness has not initiated the close and the server has not closed it"]}
