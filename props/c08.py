"""C08 - a configuration is either refused loudly or yields a correct scheme.

Monitor shape: outcome classifier over a configuration grid. For every configuration dict (single-field
substitutions with in-range / boundary / out-of-range values, every single-field deletion, all pairs of length
fields, random k-wise combinations, primitive names valid / alias / empty / unknown / wrong kind) the pipeline
SSEConfig -> SSEScheme -> KeyGen -> EDBSetup -> TokenGen -> Search is run on a database that is valid FOR that
configuration; each search is classified refused / correct / WRONG.  A search that completes with a result
different from DB.get(w, empty) is the refutation, as is a configuration with a needed field deleted that the
configuration object accepts.
"""
import copy
import itertools
import signal

from vlib import gen, sse
from vlib.common import exc_site, fp

LEVEL = "exploration"
SHARD_TIMEOUT = {"quick": 300, "thorough": 1800}

LENGTH_VALUES = [8, 16, 20, 24, 32, 48, 0, -1, 2.5, "16", None, 16.0, 32.0, [16], b"16"]
COUNT_VALUES = [0, 1, 2, 3, 8, 64, -1, 2.5, "4", None, 4.0, [4]]
NAMES = {
    "prf": ["HmacPRF", "hmac-prf", "HMAC_PRF", "", "NoSuchPRF", "AES-CBC", None],
    "ske": ["AES-CBC", "aes_cbc", "AESCBC", "", "DES-CBC", "HmacPRF", None],
    "prp": ["BitwiseFPEPRP", "bitwise-fpe-prp", "", "NoSuchPRP", "HmacPRF", "HmacLubyRackoffPRP", None],
    "hash": ["SHA1", "sha256", "md5", "sha512", "", "nohash", "HmacPRF", None],
}
FIELDS = {
    "CJJ14.PiBas": {"length": ["param_lambda", "prf_f_output_length"], "count": [],
                    "names": {"prf_f": "prf", "ske": "ske"}},
    "CJJ14.PiPack": {"length": ["param_lambda", "prf_f_output_length"], "count": ["param_B", "param_identifier_size"],
                     "names": {"prf_f": "prf", "ske": "ske"}},
    "CJJ14.PiPtr": {"length": ["param_lambda", "prf_f_output_length"],
                    "count": ["param_B", "param_b", "param_identifier_size"], "names": {"prf_f": "prf", "ske": "ske"}},
    "CJJ14.Pi2Lev": {"length": ["param_lambda", "prf_f_output_length"],
                     "count": ["param_B", "param_b", "param_B_prime", "param_b_prime", "param_identifier_size"],
                     "names": {"prf_f": "prf", "ske": "ske"}},
    "CGKO06.SSE1": {"length": ["param_k", "param_l"],
                    "count": ["param_s", "param_dictionary_size", "param_identifier_size"],
                    "names": {"prf_f": "prf", "prp_pi": "prp", "prp_psi": "prp", "ske1": "ske", "ske2": "ske"}},
    "CGKO06.SSE2": {"length": ["param_k", "param_l"], "count": ["param_n", "param_max_file_size"],
                    "names": {"prp_pi": "prp", "ske": "ske"}},
    "CT14.Pi": {"length": ["param_k", "param_k_prime", "param_l"], "count": ["param_identifier_size"],
                "names": {"prf_f": "prf", "prf_f_prime": "prf", "ske": "ske"}},
    "ANSS16.Scheme3": {"length": ["param_lambda", "param_k", "param_k_prime", "param_l", "param_l_prime"],
                       "count": ["param_identifier_size"], "names": {"prf": "prf", "ske": "ske"}},
    "DP17.Pi": {"length": ["param_lambda"], "count": ["param_L", "param_identifier_size"],
                "names": {"rnd": "ske", "prf_f": "prf", "hash_h": "hash"}},
}
SPECIAL = {
    "CGKO06.SSE1": {"param_s": [1, 2, 3, 4, 8, 20, 64, 0, -1, 2.5, None]},
    "DP17.Pi": {"param_actual_storage_level_ratio": [0, 0.05, 0.1, 0.2, 0.5, 0.6, 0.8, 1.0, 1.5, -0.2, "0.2", None]},
    "CGKO06.SSE2": {"param_max_file_size": [1, 2, 64, 1000, 2 ** 20, 0, -1, 2.5, None]},
}


def needed_fields(scheme):
    f = FIELDS[scheme]
    need = set(f["length"]) | set(f["names"])
    need |= {c for c in f["count"]}
    if scheme == "DP17.Pi":
        need.add("param_actual_storage_level_ratio")
    if scheme == "CGKO06.SSE2":
        need -= {"param_identifier_size"}
    return need


def base_config(scheme, rng):
    hp = gen.handpicked_configs(scheme)
    cid, over = rng.choice(hp)
    cfg = gen.default_config(scheme)
    cfg.update(over)
    if scheme == "CGKO06.SSE1":
        cfg["param_s"] = min(cfg["param_s"], 256)
        cfg["param_dictionary_size"] = 16
    if scheme == "CGKO06.SSE2":
        cfg["param_n"] = 8
    return cid, cfg


def plan(tier, seed):
    specs = []
    for s in gen.SCHEMES:
        kinds = ["single", "delete+names", "pairs", "random"]
        for k in kinds:
            specs.append({"name": f"{gen.SHORT[s]}-{k}", "scheme": s, "kind": k, "primitive_monitors": False,
                          "budget_s": 25 if tier == "quick" else 500, "reps": 5 if tier == "quick" else 40})
    # an ACCEPTED (default) configuration on one long-lived scheme object: index after index, each dropped before the
    # next is built, one key and then a new key every time - every search correct
    for j in range(3):
        specs.append({"name": f"dropped-index-generations-{j}", "kind": "generations", "schemes": gen.SCHEMES[j::3],
                      "scheme": gen.SCHEMES[j], "rounds": 1 if tier == "quick" else 8, "generations": 120, "budget_s": 120})
        specs.append({"name": f"interrupted-and-repeated-{j}", "kind": "interrupted", "schemes": gen.SCHEMES[j::3],
                      "scheme": gen.SCHEMES[j], "rounds": 1 if tier == "quick" else 6, "budget_s": 150})
    return specs


def valid_class(v):
    if v is None:
        return "None"
    if isinstance(v, str):
        return "str"
    if isinstance(v, float):
        return "float"
    if isinstance(v, int):
        return "neg" if v < 0 else ("zero" if v == 0 else "pos")
    return type(v).__name__


def db_for_config(rng, scheme, cfg, many=False):
    """A small database valid FOR this configuration, or None when no valid database exists / can be determined."""
    isz = cfg.get("param_identifier_size", 8)
    if not isinstance(isz, int) or isinstance(isz, bool) or isz < 1 or isz > 64:
        return None
    kw_limit = 12
    max_total, max_kw, max_list, max_files = 24, 6, 12, None
    try:
        if scheme in ("CGKO06.SSE1", "CGKO06.SSE2"):
            l = cfg.get("param_l")
            if not isinstance(l, int) or l < 1:
                return None
            kw_limit = min(kw_limit, l)
        if scheme == "CGKO06.SSE1":
            s, ds = cfg.get("param_s"), cfg.get("param_dictionary_size")
            if not isinstance(s, int) or s < 2 or not isinstance(ds, int) or ds < 1:
                return None
            max_total = min(max_total, s - 1)
            max_kw = min(max_kw, ds)
        if scheme == "CGKO06.SSE2":
            n = cfg.get("param_n")
            if not isinstance(n, int) or n < 1:
                return None
            max_files = min(n, 10)
            max_total = 14
            mfs = cfg.get("param_max_file_size")
            if isinstance(mfs, int) and mfs >= 1:
                import schemes.CGKO06.SSE2.config as c2
                max_kw = max(1, min(max_kw, c2.determine_param_max(mfs)))
            else:
                return None
        if scheme == "CJJ14.Pi2Lev":
            vals = [cfg.get(k) for k in ("param_B", "param_b", "param_B_prime", "param_b_prime")]
            if all(isinstance(v, int) and v >= 1 for v in vals):
                B, b, Bp, bp = vals
                max_list = max(b, B * bp, B * Bp * bp - 1)
                max_list = min(max_list, 40)
    except Exception:
        return None
    if many:  # escalation workload: many one-posting keywords (each search is an independent try)
        max_total = max_total if scheme in ("CGKO06.SSE1", "CGKO06.SSE2") else 40
        nk = max(1, min(max_kw if scheme in ("CGKO06.SSE1", "CGKO06.SSE2") else 40, max_total))
        nk = 1 << (nk.bit_length() - 1)  # a power of two: CT14 / ANSS16 then add no dummy keywords on other levels
        lens = [1] * nk
    else:
        nk = rng.randint(1, max(1, min(max_kw, 5)))
        lens = [max(1, min(max_list, rng.choice([1, 1, 2, 3, 5, 8, 12]))) for _ in range(nk)]
    lens = [min(n, 256 ** isz - 1) for n in lens]
    while sum(lens) > max_total and lens:
        i = lens.index(max(lens))
        if lens[i] > 1:
            lens[i] -= 1
        else:
            lens.pop()
    if not lens:
        return None
    if scheme == "CJJ14.Pi2Lev" and all(isinstance(cfg.get(k), int) and cfg.get(k) >= 1 for k in
                                        ("param_B", "param_b", "param_B_prime", "param_b_prime")):
        try:
            idx = (cfg["param_B"] * isz) // cfg["param_B_prime"]
            if idx >= 1 and gen.pi2lev_A_len(cfg, lens) > 2 ** (8 * idx):
                lens = [min(n, cfg["param_b"]) for n in lens]
        except Exception:
            pass
    used, db = set(), {}
    pool = None
    doc_numbers = isz >= 2 and rng.random() < 0.5
    if max_files is not None:
        nfiles = max(max(lens), min(sum(lens), max_files))
        if nfiles > max_files:
            lens = [min(n, max_files) for n in lens]
            nfiles = max_files
        pool = gen.gen_ids(rng, isz, min(nfiles, 256 ** isz - 1))
        lens = [min(n, len(pool)) for n in lens]
    for n in lens:
        kw = gen.gen_keyword(rng, kw_limit, used)
        used.add(kw)
        # half of the databases use document-number identifiers (small and round integers on the full width)
        db[kw] = gen.gen_ids(rng, isz, n, zero_rich=doc_numbers, pool=pool)
    return db


class CaseTimeout(Exception):
    pass


def _alarm(signum, frame):
    raise CaseTimeout()


def run_config(scheme, label, field, vclass, cfg, acc, rng, deleted=None):
    """Run the whole pipeline for one configuration dict; classify; report WRONG results."""
    short = gen.SHORT[scheme]
    L = sse.loader(scheme)
    acc.count("configs")
    acc.count("configs." + short)
    key_out = f"{short}|{field}|{vclass}"
    case = {"scheme": scheme, "cfg": cfg, "mutation": label}
    signal.signal(signal.SIGALRM, _alarm)
    signal.alarm(20)
    try:
        try:
            L.SSEConfig(copy.deepcopy(cfg))
        except CaseTimeout:
            raise
        except Exception as e:
            acc.count("outcome.refused@config")
            acc.add("outcomes", f"{key_out}|refused@config:{type(e).__name__}")
            return "refused"
        if deleted is not None and deleted in needed_fields(scheme):
            acc.violation(f"{short}:missing-field-accepted:{deleted}",
                          f"{scheme}: configuration without '{deleted}' was accepted when the configuration object "
                          f"was built", case)
            acc.add("outcomes", f"{key_out}|ACCEPTED-WITHOUT-NEEDED-FIELD")
        db = db_for_config(rng, scheme, cfg)
        if db is None:
            acc.count("outcome.constructed-no-valid-db")
            acc.add("outcomes", f"{key_out}|config-accepted;no-valid-database")
            try:
                L.SSEScheme(copy.deepcopy(cfg))
            except CaseTimeout:
                raise
            except Exception:
                pass
            return "nodb"
        shadow = copy.deepcopy(db)
        case["db"] = shadow
        cfg_given = copy.deepcopy(cfg)
        st = sse.Setup(scheme, cfg_given, db)
        if st.error is not None:
            if isinstance(st.error, CaseTimeout):
                raise st.error
            acc.count(f"outcome.refused@{st.phase}")
            acc.add("outcomes", f"{key_out}|refused@{st.phase}:{type(st.error).__name__}")
            return "refused"
        if rng.random() < 0.5:
            # the dict belongs to the caller, who rewrites it for the next experiment: the scheme that was built from
            # it, and the index, are those of the configuration as it was written when they were built
            acc.count("caller_rewrites_cfg_after_setup")
            for k, v in list(cfg_given.items()):
                if isinstance(v, bool) or k == "scheme":
                    continue
                if isinstance(v, int):
                    cfg_given[k] = rng.choice([v + 1, v * 2, max(1, v // 2), 1, 8])
                elif isinstance(v, float):
                    cfg_given[k] = rng.choice([0.1, 1.0, v / 2])
            if rng.random() < 0.3:
                cfg_given.clear()
        words = [(w, "present") for w in shadow] + [(w, "absent") for w, _ in
                                                    gen.absent_keywords(rng, shadow, 12 if scheme not in (
                                                        "CGKO06.SSE1", "CGKO06.SSE2") else max(1, min(12, cfg["param_l"])),
                                                                         k_random=2, k_close=2)]
        n_ok = n_raised = 0
        for w, kindw in words:
            acc.count("searches")
            try:
                got = st.search(w)
            except CaseTimeout:
                raise
            except Exception as e:
                n_raised += 1
                acc.count("outcome.search-raised")
                continue
            want = shadow.get(w, [])
            if sse.result_matches(scheme, got, want):
                n_ok += 1
                acc.count("outcome.search-correct")
            else:
                acc.count("outcome.search-WRONG")
                acc.add("outcomes", f"{key_out}|WRONG")
                acc.violation(f"{short}:silent-wrong-result:{field}={vclass}",
                              f"{scheme} with {label}: setup completed and the search of a {kindw} keyword returned "
                              f"{len(got)} ids instead of {len(want)} ({sse.diff_kind(scheme, got, want)}) without raising",
                              dict(case, keyword=w))
                return "wrong"
        suspicious = [k for k in FIELDS[scheme]["length"]
                      if not (isinstance(cfg.get(k), int) and not isinstance(cfg.get(k), bool) and cfg.get(k) > 0)]
        if n_raised or suspicious:
            # Some searches raised on an index that was built without complaint - or an outright invalid length was
            # accepted and the few searches above happened to be right: a wrong-key decryption that raises most of the
            # time can also unpad by chance (about 1 in 256).  Escalate: many independent one-posting keywords.
            acc.count("escalations")
            for rnd in range(30 if n_raised else 12):
                db2 = db_for_config(rng, scheme, cfg, many=True)
                if db2 is None:
                    break
                shadow2 = copy.deepcopy(db2)
                st2 = sse.Setup(scheme, copy.deepcopy(cfg), db2)
                acc.count("escalation.rounds")
                if st2.error is not None:
                    if isinstance(st2.error, CaseTimeout):
                        raise st2.error
                    continue
                for w in shadow2:
                    acc.count("escalation.searches")
                    try:
                        got = st2.search(w)
                    except CaseTimeout:
                        raise
                    except Exception:
                        continue
                    if not sse.result_matches(scheme, got, shadow2[w]):
                        acc.count("outcome.search-WRONG")
                        acc.add("outcomes", f"{key_out}|WRONG")
                        acc.violation(f"{short}:silent-wrong-result:{field}={vclass}",
                                      f"{scheme} with {label}: setup completed; most searches raise but after "
                                      f"{acc.counters.get('escalation.searches')} forced tries one returned "
                                      f"{len(got)} ids instead of {len(shadow2[w])} without raising",
                                      {"scheme": scheme, "cfg": cfg, "mutation": label, "db": shadow2, "keyword": w})
                        return "wrong"
        if n_ok and not n_raised and rng.random() < 0.3:
            # "every search on the resulting index is correct" also after the same scheme object has built another
            # index of a different size class (for PiPtr: on the other side of the 256-block boundary)
            try:
                isz = cfg.get("param_identifier_size", 8) if isinstance(cfg.get("param_identifier_size", 8), int) else 8
                nb = 300 if scheme == "CJJ14.PiPtr" and sum(len(v) for v in shadow.values()) < 200 else 3
                per = cfg.get("param_B", 1) if scheme == "CJJ14.PiPtr" and isinstance(cfg.get("param_B"), int) else 1
                other_db = {b"zz-other-%d" % j: [(j * 7919 + i + 1).to_bytes(isz, "big") for i in range(max(1, per))]
                            for j in range(nb)} if isz >= 3 else None
                if other_db is not None:
                    kx = st.sse.KeyGen()
                    edbx = st.sse.EDBSetup(kx, copy.deepcopy(other_db))
                    acc.count("second_index_on_the_same_object")
                    probes = [(st.edb, st.key, w, shadow[w]) for w in list(shadow)[:6]]
                    if rng.random() < 0.5:
                        # ... and a third setup (the first database again), then the SECOND index is searched
                        st.sse.EDBSetup(st.key, copy.deepcopy(shadow))
                        probes = [(edbx, kx, w, other_db[w]) for w in list(other_db)[:8]]
                    for (edb_p, key_p, w, want_p) in probes:
                        try:
                            got = st.sse.Search(edb_p, st.sse.TokenGen(key_p, w)).get_result_list()
                        except CaseTimeout:
                            raise
                        except Exception:
                            continue
                        if not sse.result_matches(scheme, got, want_p):
                            acc.add("outcomes", f"{key_out}|WRONG")
                            acc.violation(f"{short}:silent-wrong-result:after-another-setup",
                                          f"{scheme} with {label}: the same scheme object built a small and a "
                                          f"{nb}-keyword index in turn; a search on the index that was not built last "
                                          f"returned {len(got)} ids instead of {len(want_p)} without raising",
                                          dict(case, keyword=w, other_index_keywords=nb))
                            return "wrong"
            except CaseTimeout:
                raise
            except Exception:
                pass    # a loud failure of the second setup or of a search is not what this property forbids
        acc.add("outcomes", f"{key_out}|{'correct' if n_ok and not n_raised else 'search-raised' if not n_ok else 'correct+search-raised'}")
        if n_ok:
            acc.count("outcome.config-correct")
        return "correct" if n_ok else "search-raised"
    except CaseTimeout:
        acc.count("outcome.timeout")
        acc.add("outcomes", f"{key_out}|timeout(inconclusive)")
        return "timeout"
    finally:
        signal.alarm(0)


def run_shard(spec, acc, ctx):
    if spec.get("kind") == "interrupted":
        from props import _search_engine as eng
        eng.run_interrupted(spec, acc, ctx, "both", sig_prefix="silent-")
        acc.count("cases", acc.counters.get("interrupted.repeated_calls_compared", 0))
        return
    if spec.get("kind") == "generations":
        from props import _search_engine as eng
        eng.run_generations(spec, acc, ctx, "both", sig_prefix="silent-")
        acc.count("cases", acc.counters.get("generations.indexes", 0))
        return
    scheme = spec["scheme"]
    rng = ctx.rng
    f = FIELDS[scheme]
    kind = spec["kind"]
    n = 0

    def do(label, field, value_class, cfg, deleted=None):
        nonlocal n
        n += 1
        r = run_config(scheme, label, field, value_class, cfg, acc, rng, deleted)
        acc.count("cases")
        acc.add("distinct", fp(scheme, label, {k: repr(v) for k, v in cfg.items()}))
        if n == 1:
            acc.sample({"scheme": scheme, "mutation": label, "outcome": r})

    for rep in range(spec["reps"]):
        if ctx.out_of_time():
            break
        cid, base = base_config(scheme, rng)
        if kind == "single":
            for fld in f["length"]:
                for v in LENGTH_VALUES:
                    cfg = copy.deepcopy(base)
                    cfg[fld] = v
                    do(f"{fld}={v!r}", fld, valid_class(v) if not isinstance(v, int) or v <= 0 else str(v), cfg)
            for fld in f["count"]:
                for v in SPECIAL.get(scheme, {}).get(fld, COUNT_VALUES):
                    cfg = copy.deepcopy(base)
                    cfg[fld] = v
                    do(f"{fld}={v!r}", fld, valid_class(v) if not isinstance(v, int) or v <= 0 else str(v), cfg)
            for fld, vals in SPECIAL.get(scheme, {}).items():
                if fld in f["count"]:
                    continue
                for v in vals:
                    cfg = copy.deepcopy(base)
                    cfg[fld] = v
                    do(f"{fld}={v!r}", fld, repr(v), cfg)
        elif kind == "delete+names":
            for fld in list(base.keys()):
                cfg = copy.deepcopy(base)
                del cfg[fld]
                do(f"delete {fld}", fld, "deleted", cfg, deleted=fld)
            for fld, k in f["names"].items():
                for v in NAMES[k]:
                    cfg = copy.deepcopy(base)
                    cfg[fld] = v
                    do(f"{fld}={v!r}", fld, "name:" + repr(v), cfg)
        elif kind == "pairs":
            valid = [8, 16, 20, 24, 32, 48]
            for a, b in itertools.combinations(f["length"], 2):
                for va in valid:
                    for vb in valid:
                        if ctx.out_of_time():
                            return
                        cfg = copy.deepcopy(base)
                        cfg[a], cfg[b] = va, vb
                        do(f"{a}={va},{b}={vb}", f"{a}&{b}", f"{va},{vb}", cfg)
            if len(f["length"]) < 2:
                for fld in f["length"]:
                    for va in valid:
                        for fld2 in f["count"]:
                            for vb in (1, 2, 3, 8):
                                cfg = copy.deepcopy(base)
                                cfg[fld], cfg[fld2] = va, vb
                                do(f"{fld}={va},{fld2}={vb}", f"{fld}&{fld2}", f"{va},{vb}", cfg)
        elif kind == "random":
            allf = f["length"] + f["count"] + list(SPECIAL.get(scheme, {}))
            for _ in range(120 if ctx.tier == "quick" else 400):
                if ctx.out_of_time():
                    return
                cfg = copy.deepcopy(base)
                chosen = rng.sample(allf, min(len(allf), rng.randint(2, 4)))
                lab = []
                for fld in chosen:
                    if fld in f["length"]:
                        v = rng.choice([8, 16, 20, 24, 32, 48, 16, 32, 0])
                    else:
                        v = rng.choice([x for x in SPECIAL.get(scheme, {}).get(fld, COUNT_VALUES)
                                        if isinstance(x, (int, float))])
                    cfg[fld] = v
                    lab.append(f"{fld}={v!r}")
                do(",".join(lab), "&".join(sorted(chosen)), "combo", cfg)


def replay(case, acc, ctx):
    if case.get("generations") or case.get("interrupted"):
        # these witnesses are whole workloads on one long-lived object: run the workload again for that scheme
        from props import _search_engine as eng
        spec_ = {"schemes": [case["scheme"]], "rounds": 3, "generations": 80}
        if case.get("generations"):
            eng.run_generations(spec_, acc, ctx, "both", sig_prefix="silent-")
        else:
            eng.run_interrupted(spec_, acc, ctx, "both", sig_prefix="silent-")
        acc.count("replayed")
        return
    scheme, cfg = case["scheme"], case["cfg"]
    if "db" in case and "keyword" in case:
        st = sse.Setup(scheme, copy.deepcopy(cfg), copy.deepcopy(case["db"]))
        if st.error is None:
            try:
                got = st.search(case["keyword"])
                want = case["db"].get(case["keyword"], [])
                if not sse.result_matches(scheme, got, want):
                    acc.violation("replay:silent-wrong-result", f"{len(got)} ids instead of {len(want)}", case)
            except Exception:
                pass
    acc.count("replayed")


def finish(m, tier, seed):
    c = m["counters"]
    inc = []
    if c.get("outcome.config-correct", 0) < 200:
        inc.append(f"only {c.get('outcome.config-correct', 0)} configurations ended correct")
    refused = sum(v for k, v in c.items() if k.startswith("outcome.refused@"))
    if refused < 200:
        inc.append(f"only {refused} configurations were refused")
    if c.get("outcome.timeout", 0) > 0.05 * max(1, c.get("configs", 0)):
        inc.append(f"{c.get('outcome.timeout')} cases hit the 12 s alarm")
    for s in gen.SCHEMES:
        if c.get("configs." + gen.SHORT[s], 0) < 80:
            inc.append(f"{gen.SHORT[s]}: only {c.get('configs.' + gen.SHORT[s], 0)} configurations tried")
    table = {}
    for o in m["sets"].get("outcomes", []):
        sch, fld, vclass, out = o.split("|", 3)
        table.setdefault(sch, {}).setdefault(out.split(":")[0], 0)
        table[sch][out.split(":")[0]] += 1
    cov = {
        "evaluations": c.get("cases", 0),
        "distinct_nontrivial": len(m["sets"].get("distinct", [])),
        "rule": "case = one configuration dict derived from a valid base configuration by a single-field substitution "
                "(length fields over {8,16,20,24,32,48,0,-1,2.5,'16',None}, count/capacity fields over small, boundary "
                "and invalid values), a single-field deletion, a primitive name (valid, alias, empty, unknown, wrong "
                "kind), a pair of length fields over the valid set, or a random 2..4-field combination; the database is "
                "generated to be valid for that configuration. Every case is classified (non-trivial); distinct = "
                "distinct (scheme, mutation label, configuration).",
        "exhaustive": False,
        "outcomes": {k[8:]: v for k, v in c.items() if k.startswith("outcome.")},
        "outcome_classes_per_scheme": table,
        "searches": c.get("searches", 0),
        "distinct_outcome_rows": len(m["sets"].get("outcomes", [])),
    }
    return {"coverage": cov, "inconclusive": inc,
            "assumptions": ["the disjunction is evaluated per search: a wrong answer that was returned is a violation "
                            "even if another search of the same index raised",
                            "any exception type counts as a loud refusal",
                            "when no database can be valid for a configuration (e.g. identifier size 0) only the "
                            "construction outcome is recorded"]}
