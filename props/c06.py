"""C06 - index layout does not encode the order in which the database was supplied.

Monitor shape: (1) sortedness predicate on every label-addressed table read back from EDB.serialize(), plus equality
of the *real-label* sequences (labels touched by recording dict wrappers while every stored keyword is searched)
between EDBSetup(K, DB) and EDBSetup(K, sigma(DB)) for three permutations sigma of the keyword order;
(2) placement monitor: recording list wrappers log which array slots / buckets each keyword's search reads; two
setups of one database with >= 12 array-resident blocks (same key for PiPtr/Pi2Lev whose placement is random,
fresh key - on the SAME scheme object - for SSE-1/DP17 whose placement is key-derived or random) must not produce
identical slot maps (false-alarm probability < 1e-8 by construction of the workload).
"""
import copy
import pickle

from vlib import gen, sse
from vlib.common import exc_site, fp

LEVEL = "exploration"
SHARD_TIMEOUT = {"quick": 240, "thorough": 1500}
PLACEMENT = {"CJJ14.PiPtr": "same-key", "CJJ14.Pi2Lev": "same-key", "CGKO06.SSE1": "fresh-key", "DP17.Pi": "fresh-key"}


def plan(tier, seed):
    specs = sse.scheme_shards(tier, per_scheme_quick=2, per_scheme_thorough=3, budget_quick=12, budget_thorough=200,
                              schemes=gen.SORTED_TABLE_SCHEMES, extra={"part": "sorted"})
    specs += sse.scheme_shards(tier, per_scheme_quick=1, per_scheme_thorough=3, budget_quick=12, budget_thorough=200,
                               schemes=list(PLACEMENT), extra={"part": "placement"})
    for s in specs:
        s["name"] = s["part"] + "-" + s["name"]
    # tables of more than 2^16 entries (counters and batch sizes change width there)
    for sch in (["CJJ14.PiBas"] if tier == "quick" else ["CJJ14.PiBas", "CJJ14.PiPack", "CT14.Pi"]):
        specs.append({"name": f"sorted-big-{gen.SHORT[sch]}", "scheme": sch, "part": "big", "index": 0, "of": 1,
                      "budget_s": 200 if tier == "quick" else 900})
    # labels so short (3 bytes) that random filler labels of one level coincide: whatever the scheme does about the
    # coincidence, the stored label order stays ascending
    for sch in ("CT14.Pi", "ANSS16.Scheme3"):
        specs.append({"name": f"sorted-short-labels-{gen.SHORT[sch]}", "scheme": sch, "part": "short-labels", "index": 0,
                      "of": 1, "budget_s": 200, "rounds": 2 if tier == "quick" else 12})
    return specs


class RecDict(dict):
    def __init__(self, d, log, name):
        super().__init__(d)
        self._log, self._name = log, name

    def get(self, k, default=None):
        self._log.append((self._name, k))
        return dict.get(self, k, default)

    def __getitem__(self, k):
        self._log.append((self._name, k))
        return dict.__getitem__(self, k)

    def __contains__(self, k):
        self._log.append((self._name, k))
        return dict.__contains__(self, k)


class RecList(list):
    def __init__(self, l, log, name):
        super().__init__(l)
        self._log, self._name = log, name

    def __getitem__(self, i):
        if isinstance(i, int):
            self._log.append((self._name, i))
        return list.__getitem__(self, i)


def wrap_edb(edb, log):
    """Replace the containers held by the EDB object by recording ones (harness side, no source change)."""
    for slot in type(edb).__slots__:
        v = getattr(edb, slot)
        if isinstance(v, dict):
            if v and all(isinstance(x, list) for x in v.values()):
                setattr(edb, slot, RecDict({k: RecList(x, log, f"{slot}[{k}]") for k, x in v.items()}, [], slot))
            else:
                setattr(edb, slot, RecDict(v, log, slot))
        elif isinstance(v, list):
            if v and all(isinstance(x, dict) for x in v):
                setattr(edb, slot, [RecDict(x, log, f"{slot}[{i}]") for i, x in enumerate(v)])
            else:
                setattr(edb, slot, RecList(v, log, slot))
    return edb


def tables_of(body, path="edb"):
    """All dicts with bytes keys in the unpickled structure, with their key order as stored."""
    out = []
    if isinstance(body, dict):
        if body and all(isinstance(k, (bytes, bytearray)) for k in body):
            out.append((path, list(body.keys())))
        for k, v in body.items():
            if isinstance(v, (dict, list, tuple)):
                out += tables_of(v, f"{path}[{k!r:.10}]")
    elif isinstance(body, (list, tuple)):
        for i, v in enumerate(body):
            if isinstance(v, (dict, list, tuple)):
                out += tables_of(v, f"{path}[{i}]")
    return out


def real_label_sequences(L, sch, cobj, key, edb_bytes, db):
    """Search every stored keyword on a private recording copy; return {table: [real labels in stored order]}."""
    log = []
    edb = wrap_edb(L.SSEEncryptedDatabase.deserialize(edb_bytes, cobj), log)
    for w in db:
        sch.Search(edb, sch.TokenGen(key, w))
    touched = {}
    for name, k in log:
        if isinstance(k, (bytes, bytearray)):
            touched.setdefault(name, set()).add(bytes(k))
    seqs = {}
    for slot in type(edb).__slots__:
        v = getattr(edb, slot)
        tabs = [(slot, v)] if isinstance(v, dict) else \
            [(f"{slot}[{i}]", x) for i, x in enumerate(v)] if isinstance(v, list) and v and isinstance(v[0], dict) else []
        for name, d in tabs:
            t = touched.get(name, set())
            seqs[name] = [k for k in dict.keys(d) if k in t]
    return seqs


def restored_tables(L, cobj, raw):
    """{table name: keys in the order of the object that deserialize() rebuilds} - whatever the wire format is"""
    edb = L.SSEEncryptedDatabase.deserialize(raw, cobj)
    out = {}
    for slot in type(edb).__slots__:
        v = getattr(edb, slot)
        tabs = [(slot, v)] if isinstance(v, dict) else \
            [(f"{slot}[{i}]", x) for i, x in enumerate(v)] if isinstance(v, list) and v and isinstance(v[0], dict) else []
        for name, d in tabs:
            ks = list(dict.keys(d))
            if ks and all(isinstance(k, (bytes, bytearray)) for k in ks):
                out[name] = ks
    return out


def byte_offset_order(raw, keys, rng, sample=300):
    """Labels are stored verbatim in every wire format the schemes use: the order of their byte offsets in the
    serialized index IS the stored label sequence. Returns (checked, ok): a sample of the labels, taken in ascending
    label order, must have ascending offsets. Labels shorter than 8 bytes (chance matches) or not found are skipped."""
    ks = [k for k in keys if len(k) >= 8]
    if len(ks) > sample:
        ks = rng.sample(ks, sample)
    ks.sort()
    offs = []
    for k in ks:
        o = raw.find(k)
        if o < 0 or raw.find(k, o + 1) >= 0:
            continue
        offs.append(o)
    return len(offs), all(a < b for a, b in zip(offs, offs[1:]))


def permutations_of(db, rng):
    items = list(db.items())
    rev = dict(reversed(items))
    rot = dict(items[1:] + items[:1])
    sh = items[:]
    rng.shuffle(sh)
    return [("reverse", rev), ("rotate", rot), ("shuffle", dict(sh))]


def run_sorted_case(scheme, cid, cfg, cls, db, acc, rng, permutations=None, record=True):
    short = gen.SHORT[scheme]
    L = sse.loader(scheme)
    case = sse.case_desc(scheme, cid, cfg, cls, db)
    acc.count("sorted.cases")
    acc.count("sorted.cases." + short)
    try:
        sch = L.SSEScheme(cfg)
        cobj = L.SSEConfig(cfg)
        key = sch.KeyGen()
        raw0 = sch.EDBSetup(key, copy.deepcopy(db)).serialize()
    except Exception as e:
        acc.count("setup_failed")
        acc.note(f"{short}: setup failed {exc_site(e)}")
        return False
    variants = [("original", db, raw0)]
    for pname, pdb in permutations_of(db, rng):
        if (len(db) < 2 and pname != "reverse") or (permutations is not None and pname not in permutations):
            continue
        try:
            variants.append((pname, pdb, sch.EDBSetup(key, copy.deepcopy(pdb)).serialize()))
        except Exception as e:
            acc.count("setup_failed")
            return False
    base_seq = None
    for pname, pdb, raw in variants:
        body = pickle.loads(raw[raw.find(b"\x80"):])
        for path, keys in tables_of(body):
            acc.count("tables_checked")
            acc.count("tables_checked." + short)
            if keys != sorted(keys):
                acc.violation(f"{short}:table-not-sorted", f"{scheme}: keys of {path} are not in ascending order in the "
                                                           f"serialized index ({pname} input order)", dict(case, order=pname))
                return True
        # the same two questions asked independently of the wire format: the tables of the index that deserialize()
        # restores, and the byte offsets of the labels inside the serialized index
        try:
            rest = restored_tables(L, cobj, raw)
        except Exception as e:
            acc.note(f"{short}: deserialize failed in the sorted-table check: {exc_site(e)}")
            rest = {}
        for name, keys in rest.items():
            acc.count("restored_tables_checked")
            acc.count("restored_tables_checked." + short)
            if keys != sorted(keys):
                acc.violation(f"{short}:table-not-sorted:restored-index",
                              f"{scheme}: the labels of {name} in the index restored from its serialized form are not in "
                              f"ascending order ({pname} input order)", dict(case, order=pname))
                return True
            n_off, asc = byte_offset_order(raw, keys, rng)
            acc.count("labels_located_in_serialized_bytes", n_off)
            if not asc:
                acc.violation(f"{short}:table-not-sorted:byte-offsets",
                              f"{scheme}: inside the serialized index the labels of {name} do not appear in ascending "
                              f"label order ({pname} input order)", dict(case, order=pname))
                return True
        if record:
            seqs = real_label_sequences(L, sch, cobj, key, raw, pdb)
        else:  # schemes without random filler labels: every stored label is real
            seqs = {path: keys for path, keys in tables_of(body)}
        if base_seq is None:
            base_seq = seqs
            acc.count("real_labels_recorded", sum(len(v) for v in seqs.values()))
        else:
            acc.count("label_sequence_comparisons")
            acc.count("label_sequence_comparisons." + short)
            if seqs != base_seq:
                bad = [t for t in base_seq if seqs.get(t) != base_seq[t]][:3]
                acc.violation(f"{short}:label-sequence-depends-on-input-order",
                              f"{scheme}: real-label sequence of {bad} differs between the original and the "
                              f"{pname} keyword order (same key)", dict(case, order=pname))
                return True
    return True


def slot_map(scheme, L, sch, cobj, key, edb, db):
    """keyword -> tuple of array slots / (level,bucket,offsets) read by its search."""
    raw = edb.serialize()
    out = {}
    for w in db:
        log = []
        priv = wrap_edb(L.SSEEncryptedDatabase.deserialize(raw, cobj), log)
        tk = sch.TokenGen(key, w)
        sch.Search(priv, tk)
        slots = [(n, i) for n, i in log if isinstance(i, int)]
        if scheme == "DP17.Pi":
            # in-bucket offsets by trial decryption with the token
            clen = sch.config.param_identifier_cipher_len
            lam = sch.config.param_lambda
            withoff = []
            for n, i in slots:
                lvl = int(n[n.index("[") + 1:-1])
                bucket = edb.A_dict[lvl][i]
                offs = []
                for j in range(0, len(bucket), clen):
                    try:
                        p = sch.config.rnd.Decrypt(tk.etag, bucket[j:j + clen])
                        if p[-lam:] == b"\x00" * lam:
                            offs.append(j // clen)
                    except ValueError:
                        pass
                withoff.append((n, i, tuple(offs)))
            slots = withoff
        out[w] = tuple(slots)
    return out


_PRELUDE = {}


def prelude(rng):
    """The same deterministic-looking work before each of the two setups: every scheme builds a small index from a
    fixed database under a fixed key.  On correct code this leaves the random sources in different states each time;
    if anything in it re-seeds a shared generator from its inputs, both setups that follow start from the same state."""
    if not _PRELUDE:
        for s in gen.SCHEMES:
            cfg = gen.default_config(s)
            if s == "CGKO06.SSE1":
                cfg.update(param_s=16, param_dictionary_size=4)
            isz = cfg.get("param_identifier_size", 8)
            db = {b"p1": [bytes([i + 1]) * isz for i in range(3)], b"p2": [bytes([9]) * isz]}
            if s == "CGKO06.SSE2":
                cfg["param_n"] = 4
            sch = sse.loader(s).SSEScheme(cfg)
            _PRELUDE[s] = (sch, sch.KeyGen(), db)
    for s, (sch, key, db) in _PRELUDE.items():
        sch.EDBSetup(key, copy.deepcopy(db))


def forked_slot_map(scheme, L, sch, cobj, key, db):
    """EDBSetup + slot map in a forked child (key None: the child draws its own key). Returns (map, level sizes)."""
    import os
    import pickle
    r, w = os.pipe()
    pid = os.fork()
    if pid == 0:
        try:
            os.close(r)
            k = key if key is not None else sch.KeyGen()
            edb = sch.EDBSetup(k, copy.deepcopy(db))
            levels = {lvl: len(b) for lvl, b in edb.A_dict.items()} if scheme == "DP17.Pi" else {}
            out = pickle.dumps((slot_map(scheme, L, sch, cobj, k, edb, db), levels))
            os.write(w, len(out).to_bytes(4, "big") + out)
        finally:
            os._exit(0)
    os.close(w)
    data = b""
    while True:
        chunk = os.read(r, 1 << 16)
        if not chunk:
            break
        data += chunk
    os.close(r)
    os.waitpid(pid, 0)
    if len(data) < 4 or int.from_bytes(data[:4], "big") != len(data) - 4:
        raise RuntimeError("forked worker did not report")
    return pickle.loads(data[4:])


def run_placement_case(scheme, cid, cfg, db, acc, rng, forked=False):
    short = gen.SHORT[scheme]
    L = sse.loader(scheme)
    case = sse.case_desc(scheme, cid, cfg, "placement", db)
    acc.count("placement.cases")
    acc.count("placement.cases." + short)
    try:
        sch = L.SSEScheme(cfg)  # ONE scheme object for both setups
        cobj = L.SSEConfig(cfg)
        key1 = sch.KeyGen()
        with_prelude = rng.random() < 0.5
        if with_prelude:
            prelude(rng)
            acc.count("placement.with_prelude")
        edb1 = sch.EDBSetup(key1, copy.deepcopy(db))
        if forked == "twins":
            # ... or in two fresh interpreters that agree on the wall-clock second, process id and hash seed
            from vlib import twin
            import tempfile
            case["forked"] = "twins"
            same_key = PLACEMENT[scheme] == "same-key"
            ra, rb = twin.run_pair({"kind": "c06", "scheme": scheme, "cfg": cfg, "db": db,
                                    "key_bytes": key1.serialize() if same_key else None}, tempfile.gettempdir())
            if ra is None or rb is None:
                acc.count("placement.twin_failed")
                return False
            acc.count("placement.twin_pairs")
            (m1, levels1), (m2, _) = ra, rb
        elif forked:
            # the two setups that are compared run in two worker processes forked now, after the parent's own setup
            acc.count("placement.forked_pairs")
            case["forked"] = True
            same_key = PLACEMENT[scheme] == "same-key"
            m1, levels1 = forked_slot_map(scheme, L, sch, cobj, key1 if same_key else None, db)
            m2, _ = forked_slot_map(scheme, L, sch, cobj, key1 if same_key else None, db)
        else:
            key2 = key1 if PLACEMENT[scheme] == "same-key" else sch.KeyGen()
            if with_prelude:
                prelude(rng)
            edb2 = sch.EDBSetup(key2, copy.deepcopy(db))
            m1 = slot_map(scheme, L, sch, cobj, key1, edb1, db)
            m2 = slot_map(scheme, L, sch, cobj, key2, edb2, db)
            levels1 = {lvl: len(b) for lvl, b in edb1.A_dict.items()} if scheme == "DP17.Pi" else {}
    except Exception as e:
        acc.count("setup_failed")
        acc.note(f"{short}: placement setup failed {exc_site(e)}")
        return False
    if scheme == "DP17.Pi":
        # in-bucket order statistic: when two keywords share a bucket, does the earlier-processed one always sit
        # at the lower offsets?  (with the in-bucket shuffle this happens half of the time)
        order = {w: n for n, w in enumerate(db)}
        for mp in (m1, m2):
            buckets = {}
            for w, slots in mp.items():
                for (name, idx, offs) in slots:
                    if offs:
                        buckets.setdefault((name, idx), []).append((order[w], min(offs)))
            for members in buckets.values():
                if len(members) >= 2:
                    members.sort()
                    acc.count("dp17.inbucket_pairs")
                    if members[0][1] < members[1][1]:
                        acc.count("dp17.inbucket_pairs_in_input_order")
    if scheme != "DP17.Pi":
        # adjacency statistic (decided over the whole run in finish()): how often do two blocks that a search reads one
        # after the other sit in NEIGHBOURING cells of the same array?  Random placement: about 2 / (cells - 1) of the
        # pairs. Sequential allocation from a random or key-derived start moves everything between two setups, so the
        # comparison below does not see it, but nearly every pair is then adjacent.
        for mp in (m1, m2):
            for slots in mp.values():
                for (n1, i1), (n2, i2) in zip(slots, slots[1:]):
                    if n1 == n2 and isinstance(i1, int) and isinstance(i2, int) and i1 != i2:
                        acc.count("adjacency.pairs." + short)
                        if abs(i1 - i2) == 1:
                            acc.count("adjacency.neighbouring." + short)
    nslots = sum(len(v) for v in m1.values())
    if nslots < 12:
        acc.count("placement.too_few_blocks")
        return False
    acc.count("slot_map_comparisons")
    acc.count("slot_map_comparisons." + short)
    differing = sum(1 for w in m1 if m1[w] != m2.get(w))
    acc.count("keywords_with_different_slots", differing)
    if scheme == "DP17.Pi":
        # the bucket choice is what must move between setups; in-bucket offsets are judged by the order statistic
        b1 = {w: tuple((n, i) for (n, i, _) in v) for w, v in m1.items()}
        b2 = {w: tuple((n, i) for (n, i, _) in v) for w, v in m2.items()}
        same = b1 == b2
        # false-alarm bound: every chunk chose uniformly among the buckets of its level that still had room; count
        # conservatively (#buckets - 1) candidates per chunk and require the chance of a full repeat to be < 1e-9
        import math
        log_p = 0.0
        for slots in b1.values():
            for (name, _) in slots:
                lvl = int(name[name.index("[") + 1:-1])
                cand = max(1, levels1[lvl] - 1)
                log_p -= math.log10(cand)
        if log_p > -9:
            acc.count("placement.too_few_bucket_choices")
            return False
    else:
        same = m1 == m2
    if same:
        acc.violation(f"{short}:placement-repeats" + (":twin-interpreters" if forked == "twins" else
                                                      ":forked-workers" if forked else ""),
                      f"{scheme}: two setups of one database ({PLACEMENT[scheme]}"
                      + (", in two fresh interpreters started in the same second with the same process id and hash seed"
                         if forked == "twins" else
                         ", in two worker processes forked after the parent's own setup" if forked else "") +
                      f") put all {nslots} array-resident blocks of all {len(m1)} keywords at identical positions", case)
    # input-order check: slots must not simply follow the processing order (first setup only)
    return True


def placement_db(scheme, cfg, rng):
    """A database with >= 12 array-resident blocks (and for DP17 >= 12 chunks on a level with >= 13 buckets)."""
    if scheme == "CJJ14.PiPtr":
        B = cfg["param_B"]
        lens = [rng.randint(1, 3 * B) for _ in range(rng.randint(12, 16))]
    elif scheme == "CJJ14.Pi2Lev":
        B, b, bp = cfg["param_B"], cfg["param_b"], cfg["param_b_prime"]
        cp = gen.caps(scheme, cfg)
        if B * bp <= b:
            return None
        lens = []
        for _ in range(40):
            n = rng.randint(b + 1, min(cp["max_list"], b + 3 * B + 1))
            lens.append(n)
            if gen.pi2lev_A_len(cfg, lens) > min(cp["max_A_len"], 60):
                lens.pop()
                break
        if gen.pi2lev_A_len(cfg, lens) - 1 < 12:
            return None
    elif scheme == "CGKO06.SSE1":
        if cfg["param_s"] < 64:
            return None
        lens = [rng.randint(1, 4) for _ in range(rng.randint(5, 8))]
        while sum(lens) < 12:
            lens.append(2)
    else:  # DP17: many short lists -> many chunks on level 0, which has N+1 >= 13 buckets
        lens = [rng.randint(1, max(1, cfg["param_L"])) for _ in range(rng.randint(14, 20))]
    try:
        db, _ = gen.db_from_lens(rng, scheme, cfg, lens, "profile")
    except ValueError:
        return None
    return db


def run_shard(spec, acc, ctx):
    scheme = spec["scheme"]
    rng = ctx.rng
    if spec["part"] == "big":
        cfg = gen.default_config(scheme)
        if scheme == "CJJ14.PiPack":
            cfg["param_B"] = 1
        cfg["param_identifier_size"] = 4 if "param_identifier_size" in cfg else None
        if cfg["param_identifier_size"] is None:
            del cfg["param_identifier_size"]
        lens = [65600, 300, 7] if scheme != "CT14.Pi" else [40000, 20000, 5000, 536]
        db, info = gen.db_from_lens(rng, scheme, cfg, lens, "profile")
        if run_sorted_case(scheme, "big", cfg, "more-than-2^16-entries", db, acc, rng, permutations=["reverse"],
                           record=(scheme == "CT14.Pi")):
            acc.add("distinct", sse.case_fp(scheme, "big", db))
        acc.count("cases")
        acc.count("big_table_cases")
        return
    if spec["part"] == "short-labels":
        short = gen.SHORT[scheme]
        for rnd in range(spec["rounds"]):
            if ctx.out_of_time():
                break
            cfg = gen.default_config(scheme)
            cfg["param_l"] = 3
            if scheme == "ANSS16.Scheme3":
                cfg["param_l_prime"] = 3
            db, info = gen.db_from_lens(rng, scheme, cfg, [256] * 32 if rnd % 2 == 0 else [1] * 4096 + [4096], "profile")
            acc.count("cases")
            acc.count("short_label_cases")
            try:
                sch = sse.loader(scheme).SSEScheme(cfg)
                key = sch.KeyGen()
                raws = [sch.EDBSetup(key, copy.deepcopy(db)).serialize(),
                        sch.EDBSetup(key, dict(reversed(list(db.items())))).serialize()]
            except Exception as e:
                acc.count("setup_failed")
                acc.note(f"{short}: short-label setup failed {exc_site(e)}")
                continue
            ok = True
            for raw in raws:
                body = pickle.loads(raw[raw.find(b"\x80"):])
                for path, keys in tables_of(body):
                    acc.count("tables_checked")
                    acc.count("tables_checked." + short)
                    if keys != sorted(keys):
                        acc.violation(f"{short}:table-not-sorted", f"{scheme} with 3-byte labels and {info['N']} postings: "
                                      f"keys of {path} ({len(keys)} entries) are not in ascending order in the "
                                      f"serialized index", {"scheme": scheme, "cfg": cfg, "lens": info["lens"]})
                        ok = False
                        break
                if not ok:
                    break
            if ok:
                acc.add("distinct", fp("short-labels", scheme, rnd))
        return
    if spec["part"] == "sorted":
        first = True
        # every third case runs with CLUSTERED labels: up to forty PRF outputs / os.urandom draws of the case share their
        # leading four bytes (instrument.Steer), so label order is decided further back in the label
        from vlib.instrument import Steer
        steer = Steer(rng, p=0.6, cap=40, cluster=1.0)
        n_sorted = 0
        # PiBas has no configured identifier size: identifiers of mixed lengths (ciphertexts of several widths) are
        # valid input and the table must be in label order all the same
        gen.MIXED_ID_SIZES = scheme == "CJJ14.PiBas"
        for cid, cfg, cls, db, info in sse.iter_cases(spec, ctx, scales=[6, 16, 40],
                                                      classes=["many-singletons", "block-edge", "zipf", "pow2-edge",
                                                               "shared-id", "one-heavy"]):
            n_sorted += 1
            # (only where every label is at least 16 bytes long: twelve random bytes stay behind the common word)
            label_len = min([v for k, v in cfg.items() if k in ("param_l", "param_l_prime", "prf_f_output_length")
                             and isinstance(v, int)] or [32])
            if n_sorted % 3 == 0 and label_len >= 16:
                steer.arm()
                with steer:
                    ok_ = run_sorted_case(scheme, cid + ":clustered-labels", cfg, cls, db, acc, rng)
                acc.count("sorted.cases_with_clustered_labels")
                acc.count("sorted.values_forced_into_a_cluster", len(steer.steered_values))
            else:
                ok_ = run_sorted_case(scheme, cid, cfg, cls, db, acc, rng)
            if ok_:
                acc.add("distinct", sse.case_fp(scheme, cid, db))
            acc.count("cases")
            if first:
                acc.sample({"part": "sorted", "scheme": scheme, "cfg_id": cid, "db_class": cls,
                            "keywords": info["keywords"], "permutations": ["reverse", "rotate", "shuffle"]})
                first = False
    else:
        i = spec["index"]
        first = True
        while not ctx.out_of_time():
            cid, cfg = gen.pick_config(scheme, rng, i)
            i += spec["of"]
            if scheme == "DP17.Pi" and cfg["param_L"] == 1 and cfg["param_actual_storage_level_ratio"] < 0.5:
                # with one coarse level there are only two buckets to choose from: no placement randomness to observe
                cfg["param_actual_storage_level_ratio"] = rng.choice([0.5, 1.0])
                cid += "+ratio" + str(cfg["param_actual_storage_level_ratio"])
            db = placement_db(scheme, cfg, rng)
            if db is None:
                acc.count("placement.config_skipped")
                continue
            n_pl = acc.counters.get("placement.cases." + gen.SHORT[scheme], 0)
            if run_placement_case(scheme, cid, cfg, db, acc, rng,
                                  forked=("twins" if n_pl % 40 == 6 else n_pl % 8 == 3)):
                acc.add("distinct", sse.case_fp(scheme, cid, db))
            acc.count("cases")
            if first:
                acc.sample({"part": "placement", "scheme": scheme, "cfg_id": cid, "mode": PLACEMENT[scheme],
                            "list_lengths": [len(v) for v in db.values()]})
                first = False


def replay(case, acc, ctx):
    scheme = case["scheme"]
    if case.get("db_class") == "placement":
        run_placement_case(scheme, case["cfg_id"], case["cfg"], case["db"], acc, ctx.rng,
                           forked=("twins" if case.get("forked") == "twins" else bool(case.get("forked"))))
    elif "clustered-labels" in str(case.get("cfg_id", "")):
        from vlib.instrument import Steer
        steer = Steer(ctx.rng, p=0.6, cap=40, cluster=1.0)
        for _ in range(40):
            steer.arm()
            with steer:
                run_sorted_case(scheme, case["cfg_id"], case["cfg"], case.get("db_class", "?"), case["db"], acc, ctx.rng)
            if acc.n_violations:
                break
    else:
        run_sorted_case(scheme, case["cfg_id"], case["cfg"], case.get("db_class", "?"), case["db"], acc, ctx.rng)
    acc.count("replayed")


def finish(m, tier, seed):
    c = m["counters"]
    inc = []
    per = {}
    if c.get("sorted.values_forced_into_a_cluster", 0) < 2000:
        inc.append("fewer than 2000 labels were forced into clusters with a common leading part")
    if c.get("labels_located_in_serialized_bytes", 0) < 5000:
        inc.append("fewer than 5000 labels were located in serialized indexes")
    if c.get("placement.twin_pairs", 0) < 4:
        inc.append("placement was compared across fewer than 4 pairs of twin interpreters")
    if c.get("placement.forked_pairs", 0) < 10:
        inc.append("placement was not compared across forked workers")
    for s in gen.SORTED_TABLE_SCHEMES:
        short = gen.SHORT[s]
        per[short] = {"tables_checked": c.get("tables_checked." + short, 0),
                      "label_sequence_comparisons": c.get("label_sequence_comparisons." + short, 0)}
        if per[short]["label_sequence_comparisons"] < 30:
            inc.append(f"{short}: only {per[short]['label_sequence_comparisons']} label-sequence comparisons")
    for s in PLACEMENT:
        short = gen.SHORT[s]
        per.setdefault(short, {})["slot_map_comparisons"] = c.get("slot_map_comparisons." + short, 0)
        if per[short]["slot_map_comparisons"] < 30:
            inc.append(f"{short}: only {per[short]['slot_map_comparisons']} slot-map comparisons")
    if c.get("real_labels_recorded", 0) < 1000:
        inc.append("recording wrappers saw too few real labels")
    violations = []
    pairs, inorder = c.get("dp17.inbucket_pairs", 0), c.get("dp17.inbucket_pairs_in_input_order", 0)
    if pairs >= 100 and inorder >= 0.9 * pairs:
        # under the in-bucket shuffle P[in input order] <= 1/2 per pair: P[>= 90 of 100] < 1e-16
        violations.append({"signature": "DP17:in-bucket-position-follows-input-order",
                           "message": f"DP17: in {inorder} of {pairs} buckets shared by two keywords the keyword "
                                      f"processed first sits at the lower offset (entries are stored in input order)",
                           "case": {"pairs": pairs, "in_input_order": inorder}})
    elif pairs < 100:
        inc.append(f"DP17 in-bucket order statistic saw only {pairs} shared buckets")
    adjacency = {}
    for sname in ("CJJ14.PiPtr", "CJJ14.Pi2Lev", "CGKO06.SSE1"):
        short = gen.SHORT[sname]
        ap, an = c.get("adjacency.pairs." + short, 0), c.get("adjacency.neighbouring." + short, 0)
        adjacency[short] = {"consecutive_reads_in_one_array": ap, "in_neighbouring_cells": an}
        if ap < 200:
            inc.append(f"{short}: adjacency statistic saw only {ap} pairs of consecutively read blocks")
        elif an >= 0.6 * ap:
            # arrays have >= 13 cells: under random placement P[neighbouring] <= 2/12 per pair, P[>= 120 of 200] < 1e-40
            violations.append({"signature": f"{short}:blocks-read-consecutively-sit-in-neighbouring-cells",
                               "message": f"{sname}: {an} of {ap} pairs of blocks that a search reads one after the other "
                                          f"sit in neighbouring cells of the array (positions follow the allocation order "
                                          f"from some start, not a random choice)",
                               "case": {"pairs": ap, "neighbouring": an, "scheme": sname}})
    cov = {
        "evaluations": c.get("cases", 0),
        "distinct_nontrivial": len(m["sets"].get("distinct", [])),
        "rule": "sorted part: case = (scheme, configuration, database) set up under one key in the original and three "
                "permuted keyword orders; every table of every serialized index checked for ascending keys and the "
                "real-label sequences compared. placement part: case = a database with >= 12 array-resident blocks set "
                "up twice on one scheme object; per-keyword slot maps recorded by list wrappers compared. Non-trivial "
                "= comparisons actually made; distinct = distinct (scheme, cfg id, database fingerprint).",
        "exhaustive": False,
        "per_scheme": per,
        "tables_checked": c.get("tables_checked", 0),
        "label_sequence_comparisons": c.get("label_sequence_comparisons", 0),
        "real_labels_recorded": c.get("real_labels_recorded", 0),
        "slot_map_comparisons": c.get("slot_map_comparisons", 0),
        "keywords_with_different_slots": c.get("keywords_with_different_slots", 0),
        "setup_failed": c.get("setup_failed", 0),
        "sorted_cases_with_clustered_labels": c.get("sorted.cases_with_clustered_labels", 0),
        "labels_forced_into_a_cluster": c.get("sorted.values_forced_into_a_cluster", 0),
        "tables_of_restored_indexes_checked": c.get("restored_tables_checked", 0),
        "labels_located_in_serialized_bytes": c.get("labels_located_in_serialized_bytes", 0),
        "placement_pairs_built_in_forked_workers": c.get("placement.forked_pairs", 0),
        "placement_pairs_built_in_twin_interpreters": c.get("placement.twin_pairs", 0),
        "placement_cases_preceded_by_the_all_scheme_prelude": c.get("placement.with_prelude", 0),
        "tables_with_more_than_65536_entries": c.get("big_table_cases", 0),
        "adjacency_of_consecutively_read_blocks": adjacency,
        "dp17_shared_buckets": pairs,
        "dp17_shared_buckets_in_input_order": inorder,
    }
    return {"coverage": cov, "inconclusive": inc, "violations": violations,
            "assumptions": ["real labels = labels looked up (and found) while every stored keyword is searched on a "
                            "recording copy of the index; filler labels are random per run and only need to be in order",
                            "placement false-alarm bound: 1/12! (PiPtr/Pi2Lev), 64^-12 (SSE-1, s >= 64), 13^-12 (DP17)"]}
