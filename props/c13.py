"""C13 - a crash between persistence steps never leaves a service unusable.

Monitor shape: fault enumeration. The component under crash (the server while it handles `config` / `upload`, or the
client in create-service - the handler and the whole command with its alias table -, generate-key, encrypt-database,
upload-config+ack+close, upload-index+ack+close) runs as a
REAL subprocess with file-system interposition loaded first (vlib/fsint.py): a count run numbers every mutation
(mkdir, open-for-write, each write, unlink, rename/replace) of the step, then one run per (event k, before | after)
cuts the process with os._exit(137) exactly there.  The peer component and the whole recovery run in the worker
with the real client / server code pointed at the same scratch HOME: reconnect, redo what the reported state asks
for, finish the workflow, search every keyword.  Bricked = loader or handshake fails, a required retry is
refused, or a final search is wrong.
"""
import asyncio
import contextlib
import copy
import json
import os
import pathlib
import re
import shutil
import sys

from vlib import gen, wsharness as wh
from vlib.common import exc_site, fp, VERIF_DIR, PYTHON

LEVEL = "fault_enumeration"
SHARD_TIMEOUT = {"quick": 290, "thorough": 1750}
CLIENT_STEPS = ["create", "create-named", "key", "encrypt", "upcfg", "upedb"]
SNAME = "my-service"
SERVER_STEPS = ["config", "upload"]
ORDER = ["create", "key", "encrypt", "upcfg", "upedb"]
B_CFG, B_CFGUP, B_KEY, B_ENC, B_DBUP = 1, 2, 4, 8, 16


def plan(tier, seed):
    schemes = ["CJJ14.PiBas", "CT14.Pi"] if tier == "quick" else gen.SCHEMES
    specs = []
    for s in schemes:
        for comp, steps in (("client", CLIENT_STEPS), ("server", SERVER_STEPS)):
            for st in steps:
                specs.append({"name": f"{gen.SHORT[s]}-{comp}-{st}", "scheme": s, "component": comp, "step": st,
                              "budget_s": 260 if tier == "quick" else 1500})
    return specs


def norm_path(rel, sid):
    rel = rel.replace(sid, "<sid>") if sid else rel
    return re.sub(r"[0-9a-f]{64}", "<sid>", rel)


class Lab:
    def __init__(self, acc, ctx, scheme):
        self.acc, self.ctx, self.scheme = acc, ctx, scheme
        self.env = wh.setup_env()
        self.Service = self.env["cservice"].Service
        self.repo = os.environ.get("VERIF_REPO", "/repo")
        cfg = gen.default_config(scheme)
        if scheme == "CGKO06.SSE1":
            cfg.update(param_s=64, param_dictionary_size=8)
        if scheme == "CGKO06.SSE2":
            cfg["param_n"] = 6
        self.cfg = cfg
        isz = cfg.get("param_identifier_size", 8)
        rng = ctx.rng
        self.db = {b"kw1": [gen.gen_id(rng, isz) for _ in range(3)], b"kw2": [gen.gen_id(rng, isz)]}
        self.server = None
        self.templates = {}
        self.sid = None

    # ------------------------------------------------------------------ plumbing
    def retarget(self, home):
        self.env["sfm"]._PROGRAM_PATH = pathlib.Path(home) / ".sse"
        self.env["cfm"]._PROGRAM_PATH = pathlib.Path(home) / ".sse" / "client"
        os.makedirs(os.path.join(home, ".sse", "client"), exist_ok=True)

    async def quiesce(self):
        mgr = self.env["connector"]._sse_service_manager
        for _ in range(200):
            await asyncio.sleep(0.002)
            if not mgr._service_dict:
                break
        await asyncio.sleep(0.004)

    async def net(self, svc, coro_fn, timeout=8):
        got = {}

        def cb(fut):
            got["content"] = fut.result()
        task = asyncio.ensure_future(coro_fn(cb))
        loop = asyncio.get_running_loop()
        t_end = loop.time() + timeout
        while not task.done():
            await asyncio.sleep(0.002)
            if svc.websocket is not None and svc.websocket.closed and "content" not in got:
                task.cancel()
                with contextlib.suppress(BaseException):
                    await task
                return ("closed", None)
            if loop.time() > t_end:
                task.cancel()
                with contextlib.suppress(BaseException):
                    await task
                return ("timeout", None)
        try:
            task.result()
        except Exception as e:
            return ("raised", e)
        return ("ok", got.get("content"))

    async def close(self, svc):
        try:
            await asyncio.wait_for(svc.close_service(), 4)
        except Exception:
            if getattr(svc, "websocket", None) is not None:
                with contextlib.suppress(Exception):
                    await asyncio.wait_for(svc.websocket.close(), 2)

    def use_inprocess_server(self):
        self.env["global_config"].ClientConfig.SERVER_URI = self.server.uri

    # ------------------------------------------------------------------ templates (state just before each step)
    async def build_templates(self):
        base = self.ctx.tmpdir("tmpl")
        home = os.path.join(base, "build")
        os.makedirs(home)
        self.retarget(home)
        self.use_inprocess_server()

        def snap(name):
            dst = os.path.join(base, "T_" + name)
            shutil.copytree(home, dst)
            self.templates[name] = dst
        snap("create")
        svc = self.Service()
        self.sid = svc.handle_create_config(copy.deepcopy(self.cfg))
        snap("key")
        self.Service(self.sid).handle_create_key()
        snap("encrypt")
        self.Service(self.sid).handle_encrypt_database(copy.deepcopy(self.db))
        snap("upcfg")
        svc = self.Service(self.sid)
        r = await self.net(svc, lambda cb: svc.handle_upload_config(wait=True, wait_callback_func=cb))
        await self.close(svc)
        await self.quiesce()
        if r[0] != "ok":
            raise RuntimeError(f"template build: upload config failed {r}")
        snap("upedb")
        svc = self.Service(self.sid)
        r = await self.net(svc, lambda cb: svc.handle_upload_encrypted_database(wait=True, wait_callback_func=cb))
        await self.close(svc)
        await self.quiesce()
        if r[0] != "ok":
            raise RuntimeError(f"template build: upload index failed {r}")
        snap("done")
        self.templates["create-named"] = self.templates["create"]
        self.templates["config"] = self.templates["upcfg"]
        self.templates["upload"] = self.templates["upedb"]

    # ------------------------------------------------------------------ the component under crash
    async def spawn(self, home, argv, crash=None, log=None, buffered=False):
        env = dict(os.environ, HOME=home, PYTHONPATH=VERIF_DIR + os.pathsep + self.repo, VERIF_REPO=self.repo,
                   PYTHONDONTWRITEBYTECODE="1")
        env.pop("VERIF_CRASH", None)
        env.pop("VERIF_FSLOG", None)
        env.pop("VERIF_FS_BUFFERED", None)
        if buffered:
            env["VERIF_FS_BUFFERED"] = "1"
        if crash:
            env["VERIF_CRASH"] = crash
        if log:
            env["VERIF_FSLOG"] = log
        return await asyncio.create_subprocess_exec(PYTHON, "-u", "-B", "-m", "vlib.crashproc", *argv, env=env,
                                                    cwd=VERIF_DIR, stdout=asyncio.subprocess.PIPE,
                                                    stderr=asyncio.subprocess.STDOUT)

    async def run_component(self, home, component, step, crash=None, log=None, buffered=False):
        """Run the step with the component in a subprocess. Returns dict(rc=, out=, sid=)."""
        self.retarget(home)
        res = {"rc": None, "out": "", "sid": self.sid if step != "create" else None}
        if component == "client":
            self.use_inprocess_server()
            args = {"uri": self.server.uri, "sid": self.sid}
            if step == "create":
                args = {"cfg": self.cfg}
            if step == "create-named":
                cfg_path = os.path.join(home, "cfg.json")
                json.dump(self.cfg, open(cfg_path, "w"))
                args = {"cfg_path": cfg_path, "sname": SNAME}
                res["sid"] = None
            if step == "encrypt":
                args["db"] = {k.hex(): [i.hex() for i in v] for k, v in self.db.items()}
            p = await self.spawn(home, ["client", step, json.dumps(args)], crash, log, buffered)
            try:
                out, _ = await asyncio.wait_for(p.communicate(), 40)
            except asyncio.TimeoutError:
                p.kill()
                out = b"(timeout)"
                await p.wait()
            res["rc"], res["out"] = p.returncode, out.decode("utf8", "replace")[-600:]
            m = re.search(r"SID ([0-9a-f]{64})", res["out"])
            if m:
                res["sid"] = m.group(1)
            await self.quiesce()
            return res
        # server under crash: the real client runs here, against the subprocess
        p = await self.spawn(home, ["server"], crash, log, buffered)
        try:
            line = await asyncio.wait_for(p.stdout.readline(), 30)
            port = int(line.split()[1])
        except Exception:
            with contextlib.suppress(Exception):
                p.kill()
            await p.wait()
            res["rc"] = "server-did-not-start"
            return res
        self.env["global_config"].ClientConfig.SERVER_URI = f"ws://127.0.0.1:{port}"
        try:
            svc = self.Service(self.sid)
            if step == "config":
                r = await self.net(svc, lambda cb: svc.handle_upload_config(wait=True, wait_callback_func=cb))
            else:
                r = await self.net(svc, lambda cb: svc.handle_upload_encrypted_database(wait=True, wait_callback_func=cb))
            res["client_saw"] = r[0]
            await self.close(svc)
        except Exception as e:
            res["client_saw"] = f"raised {type(e).__name__}"
        # give the server's cleanup (virtual delay) a moment: it persists the state once more after the close
        try:
            await asyncio.wait_for(p.wait(), 0.6 if crash else 0.25)
        except asyncio.TimeoutError:
            with contextlib.suppress(Exception):
                p.kill()
            await p.wait()
            res["rc"] = "killed-by-harness"
            self.use_inprocess_server()
            return res
        res["rc"] = p.returncode
        self.use_inprocess_server()
        return res

    # ------------------------------------------------------------------ recovery: finish the workflow
    async def probe_first(self, home, sid, trace, variant):
        """Second recovery policy: before the interrupted step is retried, somebody merely looks at the service - a
        connection that is opened, told the state, (variant 1: makes a request that is refused,) and closed again;
        the server's cleanup of that connection runs to its end. Nothing in it may make the later retry impossible."""
        self.retarget(home)
        self.use_inprocess_server()
        conn = wh.RawConn(self.server.uri, sid)
        try:
            await conn.open(5)
        except Exception as e:
            trace.append(f"probe connection failed: {type(e).__name__}")
            await conn.close()
            await self.quiesce()
            return
        trace.append(f"probe connection: told state {conn.init_state!r}")
        if variant == 1:
            with contextlib.suppress(Exception):
                await conn.send("token", b"not-a-token", token_digest=b"x")
                await conn.next_event(1)
        await conn.close()
        await self.quiesce()
        trace.append("probe connection closed and cleaned up")

    def alias_lookup(self, home):
        """(sid or None, error or None) for SNAME through a fresh view of the alias table of this home."""
        import frontend.client.services.service_name_handler as snh
        snh._PROGRAM_DIR_PATH = pathlib.Path(home) / ".sse" / "client"
        snh.SERVICE_MAPPING_PATH = snh._PROGRAM_DIR_PATH / "service_mapping.json"
        snh.read_service_mapping, snh.write_service_mapping = snh._get_service_mapping_read_and_write_function()
        try:
            return snh.get_service_id_by_sname(SNAME), None
        except KeyError:
            return None, None
        except Exception as e:
            return None, e

    async def recover_named(self, home, trace):
        """After a crash inside the create-service COMMAND: the alias resolves, or creating the service again under
        the same alias works; then the ordinary recovery with the sid the alias gives."""
        import contextlib as cl
        import io
        import frontend.client.commands as cmds
        self.retarget(home)
        sid, err = self.alias_lookup(home)
        if err is not None:
            return ("alias-table", f"the alias table cannot be read after the crash: {type(err).__name__}: {err}")
        if sid is None:
            out = io.StringIO()
            try:
                with cl.redirect_stdout(out):
                    cmds.create_service(os.path.join(home, "cfg.json"), SNAME)
            except Exception as e:
                return ("create-again", f"create-service under the same alias raised {type(e).__name__}: {e}")
            sid, err = self.alias_lookup(home)
            trace.append(f"alias not registered; create-service again printed {out.getvalue().strip()[-70:]!r}")
            if sid is None:
                return ("create-again", f"after the crash create-service under the same alias does not register it: "
                                        f"{out.getvalue().strip()[-120:]!r}")
        else:
            trace.append("alias resolves after the crash")
        return await self.recover_and_finish(home, sid, trace)

    async def recover_and_finish(self, home, sid, trace):
        """Returns None when the workflow ends in correct searches, else (stage, message)."""
        self.retarget(home)
        self.use_inprocess_server()
        S = self.Service
        cs = self.env["cservice"].ClientServiceState
        if sid is None:
            try:
                sid = S().handle_create_config(copy.deepcopy(self.cfg))
                trace.append("created a new service (the crashed create returned no sid)")
            except Exception as e:
                return ("create-again", f"creating a service again failed: {type(e).__name__}: {e}")
        try:
            svc = S(sid)
        except Exception as e:
            return ("client-loader", f"Service(sid) raises after the crash: {type(e).__name__}: {e}")
        st = svc.get_current_service_state()
        if not cs.is_config_created(st):
            if getattr(self, "interrupted_step", "create") not in ("create", "create-named"):
                # the service existed before the interrupted step: a state in which the client no longer knows it is
                # neither "before" nor "after" that step (key, local index or upload flags are lost with it)
                return ("service-lost", f"the client no longer knows the service it had created before the interrupted "
                                        f"step ({self.interrupted_step}): flags {st:05b}")
            # the crashed create-service never completed under this sid: the user creates a service again
            try:
                sid = S().handle_create_config(copy.deepcopy(self.cfg))
                trace.append("service not complete on disk; created a new one")
            except Exception as e:
                return ("create-again", f"creating a service again failed: {type(e).__name__}: {e}")
        for name, fn in (("key", lambda: S(sid).handle_create_key()),
                         ("encrypt", lambda: S(sid).handle_encrypt_database(copy.deepcopy(self.db)))):
            try:
                before = S(sid).get_current_service_state()
            except Exception as e:
                return ("client-loader", f"Service(sid) raises before {name}: {type(e).__name__}: {e}")
            done = cs.is_key_created(before) if name == "key" else (cs.is_db_encrypted(before) or cs.is_db_uploaded(before))
            try:
                fn()
                trace.append(f"{name}: done now")
            except Exception as e:
                if not done:
                    return (f"retry-{name}", f"{name} is not marked done but retrying it is refused: {type(e).__name__}: {e}")
                trace.append(f"{name}: refused as already done")
        # connect: the init handshake must succeed and report a state
        try:
            svc = S(sid)
            await asyncio.wait_for(svc.load_websocket(), 6)
        except Exception as e:
            return ("handshake", f"a new connection is not accepted after the crash: {type(e).__name__}: {e}")
        st = svc.get_current_service_state()
        trace.append(f"connected; flags {st:05b}")
        if not cs.is_config_uploaded(st):
            r = await self.net(svc, lambda cb: svc.handle_upload_config(wait=True, wait_callback_func=cb))
            trace.append(f"upload config again: {r[0]}")
            if r[0] != "ok":
                await self.close(svc)
                return ("retry-upload-config", f"the server reports 'not configured' but uploading the configuration "
                                               f"again fails: {r[0]} {str(r[1])[:100]}")
        await self.close(svc)
        await self.quiesce()
        try:
            svc = S(sid)
            await asyncio.wait_for(svc.load_websocket(), 6)
        except Exception as e:
            return ("handshake", f"a new connection is not accepted: {type(e).__name__}: {e}")
        st = svc.get_current_service_state()
        if not cs.is_db_uploaded(st):
            r = await self.net(svc, lambda cb: svc.handle_upload_encrypted_database(wait=True, wait_callback_func=cb))
            trace.append(f"upload index again: {r[0]}")
            if r[0] != "ok":
                await self.close(svc)
                return ("retry-upload-index", f"the server reports 'no index' but uploading the index again fails: "
                                              f"{r[0]} {str(r[1])[:100]}")
        await self.close(svc)
        await self.quiesce()
        for w in list(self.db) + [b"nope"]:
            try:
                svc = S(sid)
                r = await self.net(svc, lambda cb: svc.handle_keyword_search(w, wait=True, wait_callback_func=cb))
            except Exception as e:
                return ("final-search", f"search raises: {type(e).__name__}: {e}")
            if r[0] != "ok":
                await self.close(svc)
                return ("final-search", f"no result delivered for {w!r}: {r[0]} {str(r[1])[:80]}")
            got = svc.sse_module_loader.SSEResult.deserialize(r[1], svc.config_object).get_result_list()
            await self.close(svc)
            want = self.db.get(w, [])
            ok = (set(got) == set(want)) if self.scheme in gen.SET_RESULT else list(got) == want
            self.acc.count("final_searches_compared")
            if not ok:
                return ("final-search", f"search {w!r} returns {len(got)} ids, expected {len(want)}")
        await self.quiesce()
        return None


async def amain(spec, acc, ctx):
    scheme, component, step = spec["scheme"], spec["component"], spec["step"]
    short = gen.SHORT[scheme]
    lab = Lab(acc, ctx, scheme)
    lab.interrupted_step = step if component == "client" else "server-" + step
    lab.server = await wh.Server().start()
    try:
        await lab.build_templates()
    except Exception as e:
        acc.note(f"template build failed: {exc_site(e)} {type(e).__name__}: {e}")
        acc.count("template_build_failed")
        await lab.server.stop()
        return
    work = ctx.tmpdir("cases")
    # ---- count run
    home = os.path.join(work, "count")
    shutil.copytree(lab.templates[step], home)
    logp = os.path.join(work, "count.json")
    res = await lab.run_component(home, component, step, crash=None, log=logp)
    try:
        events = json.load(open(logp))["events"]
    except Exception:
        events = []
    acc.count("count_runs")
    if not events:
        acc.note(f"{short} {component}/{step}: the count run saw no file-system mutation (rc={res['rc']}, {res['out'][-200:]})")
        acc.count("count_run_empty")
        await lab.server.stop()
        return
    # the count run itself must end in a working service
    tr = []
    bad = await (lab.recover_named(home, tr) if step == "create-named" else lab.recover_and_finish(home, res.get("sid"), tr))
    if bad:
        acc.violation(f"crash:{component}:{step}:no-crash-baseline-fails:{bad[0]}",
                      f"{scheme}: even without a crash the workflow does not complete after {component}/{step}: {bad[1]}",
                      {"scheme": scheme, "component": component, "step": step, "trace": tr})
        await lab.server.stop()
        return
    sid_for_norm = lab.sid
    acc.add("steps_counted", f"{short}:{component}:{step}:{len(events)}")
    first = True
    # every crash point twice: with writes that reach the file at once (torn files), and with writes that stay in the
    # interpreter's buffer until the code flushes or closes (a kill loses them; a "before write" point is then the same
    # state as the point before it and is skipped)
    points = [(k, kind, rel, phase, False) for (k, kind, rel) in events for phase in ("before", "after")] + \
             [(k, kind, rel, phase, True) for (k, kind, rel) in events for phase in ("before", "after")
              if not (kind == "write" and phase == "before")]
    for (k, kind, rel, phase, buffered) in points:
        if True:
            if ctx.out_of_time():
                acc.count("enumeration_incomplete")
                await lab.server.stop()
                return
            home = os.path.join(work, f"k{k}{phase}{'b' if buffered else ''}")
            shutil.copytree(lab.templates[step], home)
            acc.count("cases")
            if buffered:
                acc.count("crash_points_with_buffered_writes")
            acc.count(f"crash_points.{component}.{step}")
            acc.add("point_kinds", f"{component}:{step}:{kind}:{norm_path(rel, sid_for_norm)}")
            res = await lab.run_component(home, component, step, crash=f"{k}:{phase}", buffered=buffered)
            window = f"{phase}:{kind}:{norm_path(rel, sid_for_norm)}" + (":buffered-writes" if buffered else "")
            if res["rc"] != 137:
                acc.count("crash_point_not_reached")
                acc.note(f"{short} {component}/{step} k={k}:{phase}: process ended with {res['rc']} instead of the "
                         f"injected crash")
                shutil.rmtree(home, ignore_errors=True)
                continue
            acc.count("crashes_injected")
            trace = [f"crash {phase} event {k}: {kind} {norm_path(rel, sid_for_norm)}"
                     + (" (writes not yet flushed by the code are lost)" if buffered else "")]
            home_b = None
            if res.get("sid"):
                home_b = home + "-probe"
                shutil.copytree(home, home_b)
            try:
                if step == "create-named":
                    bad = await lab.recover_named(home, trace)
                else:
                    bad = await lab.recover_and_finish(home, res.get("sid"), trace)
                if not bad and home_b:
                    # the same crashed directory once more, recovered by the second policy (look first, then retry)
                    trace2 = [trace[0], "policy: probe connection first"]
                    await lab.probe_first(home_b, res["sid"], trace2, (k + (phase == "after")) % 2)
                    acc.count("recoveries_with_probe_first")
                    bad = await lab.recover_and_finish(home_b, res["sid"], trace2)
                    if bad:
                        bad = ("after-probe-connection:" + bad[0], "(a connection was opened, told the state and closed "
                                                                  "before the retry) " + bad[1])
                        trace = trace2
            except Exception as e:
                bad = ("harness", f"{exc_site(e)} {type(e).__name__}: {e}")
                acc.count("harness_errors")
            if home_b:
                shutil.rmtree(home_b, ignore_errors=True)
            if bad and bad[0] != "harness":
                acc.count("outcome.bricked")
                files = sorted(os.path.relpath(os.path.join(r, f), home) for r, _, fs in os.walk(os.path.join(home, ".sse"))
                               for f in fs if "log" not in r)
                acc.violation(f"crash:{component}:{step}:{window}:{bad[0]}",
                              f"{scheme}: {component} killed {phase} event {k} ({kind} {norm_path(rel, sid_for_norm)}) of "
                              f"{step}: after restart {bad[1]}",
                              {"scheme": scheme, "component": component, "step": step, "k": k, "phase": phase,
                               "buffered_writes": buffered, "event": [kind, norm_path(rel, sid_for_norm)], "trace": trace,
                               "files_after_crash": [norm_path(f, sid_for_norm) for f in files][:30]})
            elif not bad:
                acc.count("outcome.recovered")
                acc.add("distinct", fp(scheme, component, step, k, phase, buffered))
            if first:
                acc.sample({"scheme": scheme, "component": component, "step": step,
                            "events_of_the_step": [[k2, kd, norm_path(r2, sid_for_norm)] for k2, kd, r2 in events][:40],
                            "example_case": {"crash": f"{phase} event {k}", "recovery_trace": trace}})
                first = False
            shutil.rmtree(home, ignore_errors=True)
    acc.add("steps_enumerated", f"{short}:{component}:{step}")
    await lab.server.stop()


def run_shard(spec, acc, ctx):
    asyncio.run(amain(spec, acc, ctx))


def replay(case, acc, ctx):
    spec = {"scheme": case["scheme"], "component": case["component"], "step": case["step"]}
    acc.note("C13 replay re-enumerates the step's crash points")
    asyncio.run(amain(spec, acc, ctx))
    acc.count("replayed")


def finish(m, tier, seed):
    c = m["counters"]
    inc = []
    nsch = 2 if tier == "quick" else len(gen.SCHEMES)
    want = nsch * (len(CLIENT_STEPS) + len(SERVER_STEPS))
    done = len(m["sets"].get("steps_enumerated", []))
    exhaustive = done == want and not c.get("enumeration_incomplete")
    if not exhaustive:
        inc.append(f"only {done} of {want} (scheme, component, step) enumerations completed")
    if c.get("count_run_empty", 0) or c.get("template_build_failed", 0):
        inc.append("a count run saw no mutation / a template could not be built")
    if c.get("crash_point_not_reached", 0) > 0.1 * max(1, c.get("cases", 0)):
        inc.append(f"{c.get('crash_point_not_reached')} crash points were not reached")
    if c.get("harness_errors", 0):
        inc.append(f"{c.get('harness_errors')} harness errors")
    per = {k[13:]: v for k, v in c.items() if k.startswith("crash_points.")}
    cov = {
        "evaluations": c.get("cases", 0),
        "distinct_nontrivial": len(m["sets"].get("distinct", [])),
        "rule": "case = (scheme, component, step, file-system event k of that step, kill before | after k): the component "
                "runs as a real subprocess under fs interposition and is cut with os._exit(137) at that point; then the "
                "real client/server code finishes the workflow on the same directory following what the states report. "
                "Every event of every step is enumerated (count run first). Non-trivial = the crash was injected and the "
                "recovery ran to the final searches; distinct = distinct crash points.",
        "exhaustive": bool(exhaustive),
        "crash_points_per_component_step": per,
        "events_per_step": sorted(m["sets"].get("steps_counted", [])),
        "crashes_injected": c.get("crashes_injected", 0),
        "recovered": c.get("outcome.recovered", 0),
        "bricked": c.get("outcome.bricked", 0),
        "crash_point_not_reached": c.get("crash_point_not_reached", 0),
        "distinct_event_kinds": len(m["sets"].get("point_kinds", [])),
        "final_searches_compared": c.get("final_searches_compared", 0),
        "recoveries_with_probe_connection_first": c.get("recoveries_with_probe_first", 0),
        "crash_points_with_buffered_writes": c.get("crash_points_with_buffered_writes", 0),
    }
    if c.get("crash_points_with_buffered_writes", 0) < 50:
        inc.append("fewer than 50 crash points were run with buffered writes")
    return {"coverage": cov, "inconclusive": inc,
            "assumptions": ["crash = os._exit at a Python-level file operation, once with every write flushed at once and once "
                            "with writes left in the interpreter's buffer until the code flushes or closes; torn sector "
                            "writes / a lost page cache are not modelled (the code has no fsync)",
                            "the peer component and the recovery run in the worker process with the real code pointed at "
                            "the crashed directory", "recovery policy: reconnect; redo the interrupted step unless it is "
                                                     "refused as already done; upload what the server reports missing; "
                                                     "after a crashed create-service create a service again",
                            "every crashed directory is recovered twice (on copies): at once, and after a connection "
                            "that only looks at the service (told the state, optionally one refused request, closed, "
                            "cleaned up)"]}
