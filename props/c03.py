"""C03 - client/server split: search works from the serialized key, token and index alone.

Monitor shape: wire-boundary oracle. Every object that crosses the process boundary is serialized, deserialized
under a configuration object rebuilt from the JSON round-trip of the configuration, compared for equality and for
byte-stable re-serialization; the search itself is executed by a "server" scheme instance that only ever sees
bytes (config JSON, EDB bytes, token bytes) and by a "second client" that reloads the key from its bytes; results
are compared with the plaintext database.  All classes are located by name through schemes.load_sse_module, as
the real server does.
"""
import copy
import json

from vlib import gen, sse
from vlib.common import exc_site

LEVEL = "exploration"
SHARD_TIMEOUT = {"quick": 240, "thorough": 1500}
KINDS = ("key", "token", "edb", "result")


def plan(tier, seed):
    specs = sse.scheme_shards(tier, per_scheme_quick=2, per_scheme_thorough=3, budget_quick=12, budget_thorough=220)
    # wire formats at extreme widths: keyword limits of hundreds to ~2000 bytes (SSE-1 / SSE-2 trapdoors and table
    # addresses become integers of thousands of digits), long labels and PRF outputs elsewhere; tiny databases
    specs.append({"name": "wide-parameters", "kind": "wide", "budget_s": 100 if tier == "quick" else 600})
    # values that are random in the library (PRF outputs, os.urandom draws) and values the caller chooses (keywords,
    # identifiers) forced to begin / end with byte patterns that content-sniffing code keys on (instrument.Steer)
    for j in range(3):
        specs.append({"name": f"dropped-index-generations-{j}", "kind": "generations", "schemes": gen.SCHEMES[j::3],
                      "rounds": 1 if tier == "quick" else 8, "generations": 120, "budget_s": 120})
    specs.append({"name": "real-server-many-services", "kind": "many_services", "services": 27 if tier == "quick" else 150,
                  "small_services": 900 if tier == "quick" else 4000, "budget_s": 100 if tier == "quick" else 400})
    for j in range(3 if tier == "quick" else 6):
        specs.append({"name": f"steered-values-{j}", "kind": "steered", "index": j, "of": 3 if tier == "quick" else 6,
                      "budget_s": 14 if tier == "quick" else 240})
    return specs


def run_steered(spec, acc, ctx):
    from vlib.instrument import Steer
    rng = ctx.rng
    i = spec["index"]
    st = Steer(rng)
    while not ctx.out_of_time():
        scheme = gen.SCHEMES[i % len(gen.SCHEMES)]
        i += 1
        cid, cfg = gen.pick_config(scheme, rng, rng.randrange(40))
        cls = rng.choice(["tiny", "block-edge", "pow2-edge", "zipf"])
        scale = rng.choice([4, 8, 16])
        try:
            db, info = gen.make_db(rng, scheme, cfg, cls, scale)
            db, n_kw, n_id = gen.magic_db(rng, scheme, cfg, db)
        except ValueError:
            continue
        acc.count("steered.cases")
        acc.count("steered.cases." + gen.SHORT[scheme])
        acc.count("steered.magic_keywords", n_kw)
        acc.count("steered.magic_identifiers", n_id)
        st.arm()
        seen_tokens = []
        with st:
            run_case(scheme, cid + ":steered", cfg, cls, db, acc, rng, wire_log=seen_tokens,
                     extra_case=lambda: {"steered": True, "steered_values": list(st.steered_values)})
        acc.count("steered.prf_outputs_forced", st.n_prf)
        acc.count("steered.urandom_draws_forced", st.n_ur)
        st.n_prf = st.n_ur = 0
        blob = b"".join(seen_tokens)
        for v, pat in zip(st.steered_values, st.patterns):
            if v in blob:
                acc.count("steered.forced_value_seen_on_the_wire")
                acc.add("steered.patterns_on_the_wire", pat)


WIDE = [("CGKO06.SSE2", {"param_l": 1800, "param_max_file_size": 64}), ("CGKO06.SSE2", {"param_l": 300}),
        ("CGKO06.SSE1", {"param_l": 600, "param_s": 16}), ("CGKO06.SSE1", {"param_l": 2000, "param_s": 8}),
        ("CT14.Pi", {"param_l": 200, "param_k": 128}), ("ANSS16.Scheme3", {"param_l": 256, "param_l_prime": 300}),
        ("CJJ14.PiPack", {"param_identifier_size": 64, "param_B": 3}),
        ("DP17.Pi", {"param_identifier_size": 100, "param_L": 2}),
        ("CJJ14.PiPtr", {"param_identifier_size": 200, "param_B": 2, "param_b": 2}),
        ("CJJ14.Pi2Lev", {"param_identifier_size": 64, "param_B": 4, "param_b": 4, "param_B_prime": 4, "param_b_prime": 4})]


def run_wide(spec, acc, ctx):
    rng = ctx.rng
    for scheme, over in WIDE:
        if ctx.out_of_time():
            break
        cfg = gen.default_config(scheme)
        cfg.update(over)
        cid = "wide:" + ",".join(f"{k.replace('param_', '')}={v}" for k, v in sorted(over.items()))
        try:
            cp = gen.caps(scheme, cfg)
            lens = [3, 2, 1]
            kmin = min(cp["kw_limit"], 40) if scheme in ("CGKO06.SSE1", "CGKO06.SSE2") else 1
            db, info = gen.db_from_lens(rng, scheme, cfg, lens, "wide", kw_min=1, kw_max=None)
            if scheme in ("CGKO06.SSE1", "CGKO06.SSE2"):
                # one keyword of the full permitted length
                w0 = next(iter(db))
                db[bytes([65]) + rng.randbytes(cp["kw_limit"] - 1)] = db.pop(w0)
        except Exception as e:
            acc.note(f"wide {scheme}: no database: {exc_site(e)}")
            continue
        # a configuration this wide may be refused by the scheme itself; only an accepted one is judged
        try:
            sse.loader(scheme).SSEScheme(copy.deepcopy(cfg))
        except Exception as e:
            acc.count("wide.refused_by_the_scheme")
            acc.note(f"wide {scheme} {over}: refused ({type(e).__name__})")
            continue
        acc.count("wide.cases")
        if run_case(scheme, cid, cfg, "wide", db, acc, rng):
            acc.add("distinct", sse.case_fp(scheme, cid, db))


def run_case(scheme, cid, cfg, cls, db, acc, rng, wire_log=None, extra_case=None):
    import schemes
    short = gen.SHORT[scheme]
    shadow = copy.deepcopy(db)
    case = sse.case_desc(scheme, cid, cfg, cls, shadow)
    acc.count("cases")
    acc.count("cases." + short)
    name = cfg["scheme"]
    try:
        LA = schemes.load_sse_module(name)
        A = LA.SSEScheme(cfg)
        cobjA = LA.SSEConfig(cfg)
        key = A.KeyGen()
        edb = A.EDBSetup(key, db)
    except Exception as e:
        acc.count("setup_failed")
        acc.note(f"{short} setup failed: {exc_site(e)}")
        return False
    cfg_wire = json.loads(json.dumps(cfg))
    if cfg_wire != cfg:
        acc.note(f"{short}: configuration does not survive JSON unchanged")

    def viol(sig, msg, extra=None):
        acc.violation(f"{short}:{sig}", msg, dict(case, **(extra or {}), **(extra_case() if extra_case else {})))

    try:
        LB = schemes.load_sse_module(cfg_wire["scheme"])
        B = LB.SSEScheme(cfg_wire)           # the server's scheme: built from the JSON configuration only
        cobjB = LB.SSEConfig(cfg_wire)
        C = LB.SSEScheme(cfg_wire)           # a second client process
        cobjC = LB.SSEConfig(cfg_wire)
    except Exception as e:
        viol(f"server-config-raised:{exc_site(e)}", f"building the scheme from the JSON round-trip of the "
                                                    f"configuration raised {type(e).__name__}: {e}")
        return True

    # ---- key
    key_bytes = key.serialize()
    if wire_log is not None:
        wire_log.append(key_bytes)
    acc.count("roundtrip.key." + short)
    try:
        key2 = LB.SSEKey.deserialize(key_bytes, cobjC)
        if not (key2 == key):
            viol("key-roundtrip-unequal", "Key.deserialize(K.serialize()) != K")
        if key2.serialize() != key_bytes:
            viol("key-reserialize-differs", "re-serialized key bytes differ")
    except Exception as e:
        viol(f"key-deserialize-raised:{exc_site(e)}", f"a client cannot reload its own key: {type(e).__name__}: {e}")
        return True
    # ---- edb
    edb_bytes = edb.serialize()
    if wire_log is not None:
        wire_log.append(edb_bytes)
    acc.count("roundtrip.edb." + short)
    try:
        edbB = LB.SSEEncryptedDatabase.deserialize(edb_bytes, cobjB)
        if not (edbB == edb):
            viol("edb-roundtrip-unequal", "EDB.deserialize(EDB.serialize()) != EDB")
        if edbB.serialize() != edb_bytes:
            viol("edb-reserialize-differs", "re-serialized index bytes differ")
    except Exception as e:
        viol(f"edb-deserialize-raised:{exc_site(e)}", f"{type(e).__name__}: {e}")
        return True
    # ---- searches through the wire
    cp = gen.caps(scheme, cfg)
    present = list(shadow)
    if len(present) > 10:
        present = rng.sample(present, 10)
    words = [(w, "present") for w in present] + \
            [(w, "absent") for w, _ in gen.absent_keywords(rng, shadow, cp["kw_limit"], k_random=2, k_close=2)]
    for w, kindw in words:
        want = shadow.get(w, [])
        for who, sch, k in (("client-A", A, key), ("client-C-reloaded-key", C, key2)):
            acc.count("pipeline.searches")
            acc.count("pipeline.searches." + short)
            try:
                tk = sch.TokenGen(k, w)
                tk_bytes = tk.serialize()
            except Exception as e:
                viol(f"tokengen-raised:{who}:{exc_site(e)}", f"{type(e).__name__}: {e}", {"keyword": w})
                return True
            if wire_log is not None:
                wire_log.append(tk_bytes)
            acc.count("roundtrip.token." + short)
            try:
                tkB = LB.SSEToken.deserialize(tk_bytes, cobjB)
                if not (tkB == tk):
                    viol("token-roundtrip-unequal", "Token.deserialize(T.serialize()) != T", {"keyword": w})
                if tkB.serialize() != tk_bytes:
                    viol("token-reserialize-differs", "re-serialized token bytes differ", {"keyword": w})
            except Exception as e:
                viol(f"token-deserialize-raised:{exc_site(e)}", f"server cannot parse a token: {type(e).__name__}: {e}",
                     {"keyword": w})
                return True
            try:
                resB = B.Search(edbB, tkB)
                res_bytes = resB.serialize()
            except Exception as e:
                viol(f"server-search-raised:{kindw}:{exc_site(e)}", f"{type(e).__name__}: {e}", {"keyword": w})
                return True
            acc.count("roundtrip.result." + short)
            try:
                res = LA.SSEResult.deserialize(res_bytes, cobjA)
                if isinstance(res, Exception):
                    viol("result-deserialize-returned-exception", f"deserialize returned {res!r}", {"keyword": w})
                    return True
                if not (res == resB):
                    viol("result-roundtrip-unequal", "Result.deserialize(R.serialize()) != R", {"keyword": w})
                got = res.get_result_list()
            except Exception as e:
                viol(f"result-deserialize-raised:{exc_site(e)}", f"{type(e).__name__}: {e}", {"keyword": w})
                return True
            if not sse.result_matches(scheme, got, want):
                viol(f"pipeline-wrong-result:{who}:{kindw}",
                     f"result delivered through serialized objects ({who}) has {len(got)} ids, expected {len(want)} "
                     f"({sse.diff_kind(scheme, got, want)})", {"keyword": w})
                return True
    acc.add("width_tuples." + short, cid)
    return True


async def many_services(spec, acc, ctx):
    """The real server (started through its own run_server) holding MANY services at once - more than any pool of
    decoded objects - sees only bytes: JSON configuration, serialized index, serialized tokens (raw protocol client).
    Every service is searched, then all of them again in another order, each search on a connection of its own."""
    import asyncio
    import pickle
    from vlib import wsharness as wh
    rng = ctx.rng
    wh.setup_env()
    server = await wh.Server().start()
    services = []
    n = spec["services"]
    try:
        for i in range(n):
            scheme = gen.SCHEMES[i % len(gen.SCHEMES)]
            cfg = gen.default_config(scheme)
            if scheme == "CGKO06.SSE1":
                cfg.update(param_s=64, param_dictionary_size=16)
            db, info = gen.db_from_lens(rng, scheme, cfg, [rng.randint(1, 4) for _ in range(rng.randint(2, 4))], "many-services")
            if scheme == "CGKO06.SSE2":
                cfg["param_n"] = len({x for v in db.values() for x in v}) + 1
            L = sse.loader(scheme)
            sch = L.SSEScheme(copy.deepcopy(cfg))
            key = sch.KeyGen()
            edb_bytes = sch.EDBSetup(key, copy.deepcopy(db)).serialize()
            sid = "%064x" % rng.getrandbits(255)
            conn = await wh.RawConn(server.uri, sid).open()
            ok = True
            for mtype, content in (("config", pickle.dumps(dict(cfg, salt="%032x" % rng.getrandbits(120)))),
                                   ("upload_edb", edb_bytes)):
                await conn.send(mtype, content)
                ev = await conn.next_event(8)
                if ev[0] != "msg" or wh.decode_reply(ev[1])[1] != "ok":
                    acc.violation(f"{gen.SHORT[scheme]}:real-server:{mtype}-not-acknowledged",
                                  f"service #{i} ({scheme}): the server did not acknowledge {mtype}: {ev!r:.100}",
                                  {"scheme": scheme, "many_services": True})
                    ok = False
                    break
            await conn.close()
            await wh.settle(20)
            if ok:
                services.append((sid, scheme, L, L.SSEConfig(json.loads(json.dumps(cfg))), sch, key, db))
        acc.count("many_services.services_uploaded", len(services))
        order = list(range(len(services)))
        for rnd in range(3):
            if rnd:
                rng.shuffle(order)
            for i in order:
                sid, scheme, L, cobj, sch, key, db = services[i]
                short = gen.SHORT[scheme]
                conn = await wh.RawConn(server.uri, sid).open()
                for w in (rng.choice(sorted(db)), b"no-such-kw"):
                    tok = sch.TokenGen(key, w).serialize()
                    await conn.send("token", tok, token_digest=b"d")
                    ev = await conn.next_event(8)
                    acc.count("many_services.searches")
                    acc.count("pipeline.searches")
                    case = {"scheme": scheme, "many_services": True, "services_on_the_server": len(services), "round": rnd}
                    if ev[0] != "msg" or ev[1].get("type") != "result":
                        acc.violation(f"{short}:real-server:no-result", f"service #{i} of {len(services)} on one server "
                                      f"(round {rnd + 1}): no result message: {ev!r:.100}", case)
                        break
                    try:
                        got = L.SSEResult.deserialize(ev[1]["content"], cobj).get_result_list()
                    except Exception as e:
                        acc.violation(f"{short}:real-server:result-unreadable:{exc_site(e)}", f"{type(e).__name__}: {e}", case)
                        break
                    if not sse.result_matches(scheme, got, db.get(w, [])):
                        acc.violation(f"{short}:real-server:wrong-result",
                                      f"{scheme}: service #{i} of {len(services)} held by one server process (round {rnd + 1}): "
                                      f"the server returned {len(got)} ids for a keyword with {len(db.get(w, []))} postings",
                                      case)
                        break
                await conn.close()
                await wh.settle(20)
        acc.count("cases", len(services))
        acc.add("distinct", "many-services")
        # phase 2: hundreds of small PiBas services, one upload and one search each - whatever the server derives from
        # the bytes of an index (lengths, checksums, file names) meets hundreds of different values
        scheme = "CJJ14.PiBas"
        cfg = gen.default_config(scheme)
        L = sse.loader(scheme)
        cobj = L.SSEConfig(json.loads(json.dumps(cfg)))
        sch = L.SSEScheme(copy.deepcopy(cfg))
        key = sch.KeyGen()
        ids = gen.gen_ids(rng, 8, 6)
        for i in range(spec.get("small_services", 0)):
            if ctx.out_of_time():
                break
            db = {b"kw": rng.sample(ids, rng.randint(1, 4)), b"x%d" % i: ids[:1]}
            edb_bytes = sch.EDBSetup(key, copy.deepcopy(db)).serialize()
            sid = "%064x" % rng.getrandbits(255)
            conn = await wh.RawConn(server.uri, sid).open()
            await conn.send("config", pickle.dumps(dict(cfg, salt="%x" % rng.getrandbits(64))))
            await conn.next_event(8)
            await conn.send("upload_edb", edb_bytes)
            ev = await conn.next_event(8)
            await conn.close()
            await wh.settle(10)
            conn = await wh.RawConn(server.uri, sid).open()
            await conn.send("token", sch.TokenGen(key, b"kw").serialize(), token_digest=b"d")
            ev = await conn.next_event(8)
            acc.count("many_services.small_services_searched")
            acc.count("pipeline.searches")
            case = {"scheme": scheme, "many_services": True, "small_services": True}
            if ev[0] != "msg" or ev[1].get("type") != "result":
                acc.violation("PiBas:real-server:no-result:one-of-many-small-services",
                              f"small service #{i}: after an acknowledged upload of a {len(edb_bytes)}-byte index the server "
                              f"does not answer a search: {ev!r:.100}", case)
                break
            got = L.SSEResult.deserialize(ev[1]["content"], cobj).get_result_list()
            if got != db[b"kw"]:
                acc.violation("PiBas:real-server:wrong-result:one-of-many-small-services",
                              f"small service #{i}: {len(got)} ids, expected {len(db[b'kw'])}", case)
                break
            await conn.close()
            await wh.settle(10)
    except wh.Timeout:
        acc.count("many_services.timeouts")
        acc.note("many-services: the server did not answer in time")
    finally:
        await server.stop()


def run_shard(spec, acc, ctx):
    if spec.get("kind") == "generations":
        # a long-lived client scheme object whose keys and indexes come and go (half of the indexes are restored from
        # their serialized form): tokens generated for the current key must match the current index
        from props import _search_engine as eng
        eng.run_generations(spec, acc, ctx, "both", sig_prefix="pipeline-")
        acc.count("cases", acc.counters.get("generations.indexes", 0))
        return
    if spec.get("kind") == "many_services":
        import asyncio
        asyncio.run(many_services(spec, acc, ctx))
        return
    if spec.get("kind") == "wide":
        run_wide(spec, acc, ctx)
        return
    if spec.get("kind") == "steered":
        gen.MIXED_ID_SIZES = False
        run_steered(spec, acc, ctx)
        return
    gen.MIXED_ID_SIZES = True
    scheme = spec["scheme"]
    first = True
    for cid, cfg, cls, db, info in sse.iter_cases(spec, ctx, scales=[6, 16, 40],
                                                  classes=["tiny", "block-edge", "pow2-edge", "zipf", "one-heavy",
                                                           "zero-bytes", "array-edge"],
                                                  rare_classes=("array-edge",)):
        if run_case(scheme, cid, cfg, cls, db, acc, ctx.rng):
            acc.add("distinct", sse.case_fp(scheme, cid, db))
        if first:
            acc.sample({"scheme": scheme, "cfg_id": cid, "db_class": cls, "N": info["N"]})
            first = False


def replay(case, acc, ctx):
    if case.get("generations") or case.get("interrupted"):
        # these witnesses are whole workloads on one long-lived object: run the workload again for that scheme
        from props import _search_engine as eng
        spec_ = {"schemes": [case["scheme"]], "rounds": 3, "generations": 80}
        if case.get("generations"):
            eng.run_generations(spec_, acc, ctx, "both", sig_prefix="pipeline-")
        else:
            eng.run_interrupted(spec_, acc, ctx, "both", sig_prefix="pipeline-")
        acc.count("replayed")
        return
    if case.get("many_services"):
        import asyncio
        asyncio.run(many_services({"services": max(27, int(case.get("services_on_the_server", 27)))}, acc, ctx))
        acc.count("replayed")
        return
    if case.get("steered"):
        # forced values are drawn anew (keys are random in the library): repeat the case under Steer
        from vlib.instrument import Steer
        st = Steer(ctx.rng, p=0.3, cap=12)
        for _ in range(150):
            st.arm()
            with st:
                run_case(case["scheme"], case.get("cfg_id", "replay"), case["cfg"], case.get("db_class", "?"),
                         case["db"], acc, ctx.rng)
            acc.count("replayed")
            if acc.n_violations:
                break
        return
    run_case(case["scheme"], case.get("cfg_id", "replay"), case["cfg"], case.get("db_class", "?"), case["db"], acc,
             ctx.rng)
    acc.count("replayed")


def finish(m, tier, seed):
    c = m["counters"]
    inc = []
    per = {}
    for s in gen.SCHEMES:
        short = gen.SHORT[s]
        per[short] = {k: c.get(f"roundtrip.{k}.{short}", 0) for k in KINDS}
        per[short]["pipeline_searches"] = c.get("pipeline.searches." + short, 0)
        per[short]["configurations"] = len(m["sets"].get("width_tuples." + short, []))
        for k in KINDS:
            if per[short][k] < 20:
                inc.append(f"{short}: only {per[short][k]} {k} round-trips")
        if per[short]["configurations"] < 3:
            inc.append(f"{short}: fewer than 3 distinct configurations")
    if c.get("many_services.searches", 0) < 100:
        inc.append("the real server with many services answered fewer than 100 searches")
    if c.get("steered.forced_value_seen_on_the_wire", 0) < 30:
        inc.append("fewer than 30 forced values were observed in serialized keys, tokens or indexes")
    if c.get("setup_failed", 0) > 0.2 * max(1, c.get("cases", 0)):
        inc.append("too many setups failed")
    cov = {
        "evaluations": c.get("cases", 0),
        "distinct_nontrivial": len(m["sets"].get("distinct", [])),
        "rule": "case = (scheme, configuration, database): key/EDB round-trips + for <= 10 present and 4 absent "
                "keywords the full pipeline twice (token from the original client; token from a fresh scheme "
                "instance that reloaded the key from bytes), searched by a server instance built from the JSON "
                "round-trip of the configuration that only sees bytes; non-trivial = setup succeeded and the "
                "pipeline ran; distinct = distinct (scheme, cfg id, database fingerprint).",
        "exhaustive": False,
        "per_scheme": per,
        "pipeline_searches": c.get("pipeline.searches", 0),
        "wide_parameter_cases": c.get("wide.cases", 0),
        "real_server_holding_many_services": {k[14:]: v for k, v in c.items() if k.startswith("many_services.")},
        "steered": {k[8:]: v for k, v in c.items() if k.startswith("steered.")},
        "steered_patterns_seen_on_the_wire": len(m["sets"].get("steered.patterns_on_the_wire", [])),
        "setup_failed": c.get("setup_failed", 0),
    }
    return {"coverage": cov, "inconclusive": inc,
            "assumptions": ["equality is the classes' own __eq__ plus byte equality of a second serialize()",
                            "server and clients run in one process but share no objects (only bytes and the JSON dict)"]}
