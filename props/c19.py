"""C19 - persistent fixed-length byte array behaves like a list, on disk and after reopen.

Monitor shape: history + executable model. Seeded operation sequences are applied to the real SPFLBArray and to
a reference list of left-zero-padded items; every observation is compared, a full read is compared after every
failing operation, the scratch directory is listed after every operation (stray-file detection) and an audit
hook reports any file opened for writing outside the scratch directory.
"""
import math
import os
import sys

from vlib.common import fp, exc_site

LEVEL = "exploration"
SHARD_TIMEOUT = {"quick": 240, "thorough": 1500}


def plan(tier, seed):
    specs = []
    n = 14 if tier == "quick" else 16
    per = 4000 if tier == "quick" else 60000
    for i in range(n):
        specs.append({"name": f"seq{i}", "kind": "seq", "index": i, "sequences": per,
                      "budget_s": 90 if tier == "quick" else 420})
    specs.append({"name": "small-exh", "kind": "small", "max_len": 4 if tier == "quick" else 6,
                  "budget_s": 120 if tier == "quick" else 1200})
    return specs


class Fail(Exception):
    pass


class IndexLike:
    """An integer-like object (operator.index works on it), as numpy integers are: a list accepts it as an index."""

    def __init__(self, v):
        self.v = v

    def __index__(self):
        return self.v

    def __repr__(self):
        return f"IndexLike({self.v})"


def dress(rng, i, acc):
    """The index as the caller may spell it: a plain int, a bool (for 0 / 1) or an object with __index__."""
    r = rng.random()
    if r < 0.05 and i in (0, 1):
        acc.count("indices_spelled_as_bool")
        return bool(i)
    if r < 0.12:
        acc.count("indices_spelled_as_index_like_objects")
        return IndexLike(i)
    return i


class Model:
    def __init__(self, n, item_size):
        self.n, self.item_size = n, item_size
        self.items = [bytes(item_size)] * n

    def pad(self, v):
        return bytes(self.item_size - len(v)) + bytes(v)

    def valid_item(self, v):
        return isinstance(v, (bytes, bytearray)) and len(v) <= self.item_size


def outside_writes_hook(scratch, sink):
    def hook(event, args):
        if event == "open":
            path, mode, flags = args
            try:
                if isinstance(path, bytes):
                    path = path.decode("utf8", "replace")
                if not isinstance(path, str):
                    return
                if flags & (os.O_WRONLY | os.O_RDWR | os.O_CREAT):
                    ap = os.path.abspath(path)
                    if not ap.startswith(scratch) and not ap.startswith("/dev/"):
                        sink.append(ap)
            except Exception:
                pass
    return hook


_outside = []
_hook_installed = [False]


def gen_value(rng, item_size, kind=None):
    kind = kind or rng.choices(["ok", "short", "empty", "bytearray", "over", "nonbytes"],
                               [50, 18, 4, 6, 11, 11])[0]
    if kind == "ok":
        return rng.randbytes(item_size), True
    if kind == "short":
        return rng.randbytes(rng.randint(0, item_size)), True
    if kind == "empty":
        return b"", True
    if kind == "bytearray":
        return bytearray(rng.randbytes(rng.randint(0, item_size))), True
    if kind == "over":
        return rng.randbytes(item_size + rng.randint(1, 3)), False
    return rng.choice([7, "str", None, [1, 2], 3.5]), False


def gen_slice(rng, n):
    def part():
        return rng.choice([None, None, rng.randint(-n - 2, n + 2), 0, n, -1])
    step = rng.choice([None, None, 1, 1, 2, 3, -1, -2, -3])
    return slice(part(), part(), step)


class Runner:
    """Applies one operation sequence to the real array and the model."""

    def __init__(self, acc, ctx, SP):
        self.acc, self.ctx, self.SP = acc, ctx, SP
        self.trace = []
        self.sibling_files = set()

    def viol(self, sig, msg):
        self.acc.violation(sig, msg, {"params": self.params, "ops": self.trace[-45:],
                                      "relative_path": getattr(self, "relative_path", False),
                                      "previous_array_at_this_path": getattr(self, "prev_params", None)})

    def listing_ok(self, d, base, n, chunk):
        allowed = {base + "_meta"} | {f"{base}_{k}" for k in range(math.ceil(n / chunk))} | self.sibling_files
        names = set(os.listdir(d))
        self.acc.count("dir_listings")
        extra = names - allowed
        if extra:
            self.viol("array:stray-file", f"unexpected files {sorted(extra)[:4]} in the array's directory")
            return False
        return True

    def full_compare(self, arr, model, why):
        self.acc.count("full_reads")
        try:
            got = arr[:]
        except Exception as e:
            self.viol(f"array:full-read-raised:{exc_site(e)}", f"arr[:] raised {type(e).__name__}: {e} ({why})")
            return False
        if got != model.items:
            bad = [i for i, (a, b) in enumerate(zip(got, model.items)) if a != b][:5]
            self.viol(f"array:state-diverged:{why}", f"full read differs from the model at indices {bad} ({why})")
            return False
        return True

    def run(self, params, ops_count, rng, from_list=False, _reuse=None):
        SP, acc = self.SP, self.acc
        n, isz, chunk = params["n"], params["item_size"], params["chunk"]
        self.params = params
        self.trace = []
        base = "a"
        if _reuse is None:
            d = self.ctx.tmpdir("arr")
            path = os.path.join(d, base)
            self.prev_params = None
            # half of the arrays are addressed by a path RELATIVE to the working directory
            self.relative_path = rng.random() < 0.5
            if self.relative_path:
                path = os.path.relpath(path)
                acc.count("arrays_addressed_by_a_relative_path")
        else:
            d, path = _reuse
        model = Model(n, isz)
        try:
            if from_list:
                k = rng.randint(0, n)
                init = [rng.randbytes(rng.randint(0, isz)) for _ in range(k)]
                self.trace.append(["from_list", [x.hex() for x in init]])
                arr = SP.from_list(init, path, chunk_size=chunk, item_size=isz, list_len=n)
                for i, x in enumerate(init):
                    model.items[i] = model.pad(x)
            else:
                self.trace.append(["create"])
                arr = SP.create(path, item_size=isz, array_len=n, item_num_in_one_file=chunk)
        except Exception as e:
            self.viol(f"array:create-raised:{exc_site(e)}", f"{type(e).__name__}: {e}")
            return
        closed = False
        ok_so_far = True
        # a second, independent array open at the same time in the same directory (30 % of the sequences): the two must
        # not influence each other (state shared between instances would show up as cross-talk)
        sib = sib_model = None
        self.sibling_files = set()
        if rng.random() < 0.3:
            sn, sisz, schunk = rng.randint(1, 12), rng.randint(1, 9), rng.randint(1, 6)
            try:
                sib = SP.create(os.path.join(d, "b"), item_size=sisz, array_len=sn, item_num_in_one_file=schunk)
            except Exception as e:
                self.viol(f"array:sibling-create-raised:{exc_site(e)}", f"{type(e).__name__}: {e}")
                return
            sib_model = Model(sn, sisz)
            self.sibling_files = {"b_meta"} | {f"b_{k}" for k in range(math.ceil(sn / schunk))}
            acc.count("sequences_with_a_sibling_array")
        for step in range(ops_count):
            if sib is not None and rng.random() < 0.5:
                j = rng.randrange(sib_model.n)
                v = rng.randbytes(rng.randint(0, sib_model.item_size))
                self.trace.append(["sibling-set+get", j, v.hex()])
                try:
                    sib[j] = v
                    sib_model.items[j] = sib_model.pad(v)
                    k2 = rng.randrange(sib_model.n)
                    if sib[k2] != sib_model.items[k2]:
                        self.viol("array:sibling-cross-talk", "a second array open at the same time returned a wrong item")
                        ok_so_far = False
                        break
                except Exception as e:
                    self.viol(f"array:sibling-raised:{exc_site(e)}", f"{type(e).__name__}: {e}")
                    ok_so_far = False
                    break
            op = rng.choices(["get", "set", "getslice", "setslice", "del", "delslice", "clear", "iter", "in", "len",
                              "reopen", "closed_ops", "setslice_gen_fail", "iter_live", "with_failing", "reopen_elsewhere"],
                             [22, 22, 9, 12, 5, 4, 1, 4, 5, 3, 7, 2, 4, 3, 2, 0.02])[0]
            try:
                ok_so_far = self.apply(op, arr, model, rng, path) and ok_so_far
                if op in ("reopen", "closed_ops", "with_failing", "reopen_elsewhere"):
                    arr = self.arr  # replaced
            except Fail:
                ok_so_far = False
            if not self.listing_ok(d, base, n, chunk):
                ok_so_far = False
            if not ok_so_far:
                break
        if sib is not None:
            try:
                if ok_so_far and sib[:] != sib_model.items:
                    self.viol("array:sibling-cross-talk", "the second array's contents were changed by operations on the first")
                    ok_so_far = False
                sib.close()
            except Exception as e:
                self.viol(f"array:sibling-raised:{exc_site(e)}", f"{type(e).__name__}: {e}")
                ok_so_far = False
        if ok_so_far:
            # final: close, reopen, compare everything
            try:
                arr.close()
                arr = SP.open(path)
                self.trace.append(["final-reopen"])
                acc.count("op.reopen")
                self.full_compare(arr, model, "after-final-reopen")
                arr.close()
            except Exception as e:
                self.viol(f"array:reopen-raised:{exc_site(e)}", f"{type(e).__name__}: {e}")
        else:
            try:
                arr.close()
            except Exception:
                pass
        self.listing_ok(d, base, n, chunk)
        import shutil
        if ok_so_far and _reuse is None and rng.random() < 0.25:
            # the array is released (its files deleted) and ANOTHER array with another geometry is created under the same
            # path in the same process: nothing of the dead array may survive in it, also not after close and reopen
            try:
                a = SP.open(path)
                a.release()
                for f in self.sibling_files:          # the sibling array's files are the harness's to remove
                    try:
                        os.unlink(os.path.join(d, f))
                    except OSError:
                        pass
                left = os.listdir(d)
            except Exception as e:
                self.viol(f"array:release-raised:{exc_site(e)}", f"{type(e).__name__}: {e}")
                shutil.rmtree(d, ignore_errors=True)
                return
            if left:
                self.viol("array:release-left-files", f"release() left {sorted(left)[:4]} behind")
                shutil.rmtree(d, ignore_errors=True)
                return
            acc.count("paths_reused_for_an_array_of_another_geometry")
            self.prev_params = dict(params)
            p2 = {"n": rng.choice([x for x in (1, 2, 3, 5, 8, 13, n + 1, max(1, n - 1), 2 * n) if x != n]),
                  "item_size": rng.choice([x for x in range(1, 10) if x != isz]), "chunk": rng.randint(1, 7)}
            self.run(p2, max(6, ops_count // 2), rng, from_list=rng.random() < 0.3, _reuse=(d, path))
            return
        shutil.rmtree(d, ignore_errors=True)

    def expect(self, kind, fn, exc_types, arr, model, label):
        """fn must raise one of exc_types and leave the array unchanged."""
        self.acc.count("failing_ops")
        self.acc.count("failing." + kind)
        try:
            r = fn()
        except exc_types:
            if not self.full_compare(arr, model, "after-failing-" + kind):
                raise Fail()
            return True
        except Exception as e:
            # wrong exception type: still loud; the property says "raises"
            self.acc.count("failing_other_exception")
            if not self.full_compare(arr, model, "after-failing-" + kind):
                raise Fail()
            return True
        self.viol(f"array:not-refused:{kind}", f"{label} did not raise (returned {r!r:.60})")
        raise Fail()

    def apply(self, op, arr, model, rng, path):
        acc, n, isz = self.acc, model.n, model.item_size
        self.arr = arr
        acc.count("op." + op)
        if op == "get":
            i = rng.randint(-n - 2, n + 2)
            self.trace.append(["get", i])
            if -n <= i < n:
                acc.add("index_classes", "neg" if i < 0 else "nonneg")
                try:
                    key = dress(rng, i, acc)
                    self.trace[-1].append(type(key).__name__)
                    got = arr[key]
                except Exception as e:
                    self.viol(f"array:get-raised:{'neg' if i < 0 else 'nonneg'}:{exc_site(e)}",
                              f"arr[{key!r}] raised {type(e).__name__}: {e}")
                    raise Fail()
                if got != model.items[i]:
                    self.viol(f"array:get-wrong:{'neg' if i < 0 else 'nonneg'}", f"arr[{i}] = {got!r} model {model.items[i]!r}")
                    raise Fail()
            else:
                self.expect("get-out-of-range", lambda: arr[i], (IndexError,), arr, model, f"arr[{i}]")
        elif op == "set":
            i = rng.randint(-n - 2, n + 2)
            v, valid = gen_value(rng, isz)
            self.trace.append(["set", i, v.hex() if isinstance(v, (bytes, bytearray)) else repr(v)])
            in_range = -n <= i < n

            key = dress(rng, i, acc) if (in_range and valid) else i
            self.trace[-1].append(type(key).__name__)

            def do():
                arr[key] = v
            if in_range and valid:
                try:
                    do()
                except Exception as e:
                    self.viol(f"array:set-raised:{exc_site(e)}", f"arr[{i}] = {v!r:.40} raised {type(e).__name__}: {e}")
                    raise Fail()
                model.items[i] = model.pad(v)
                acc.add("index_classes", "wneg" if i < 0 else "wnonneg")
            else:
                kind = "set-out-of-range" if not in_range else ("set-oversized" if isinstance(v, (bytes, bytearray))
                                                                else "set-nonbytes")
                self.expect(kind, do, (IndexError, ValueError, TypeError), arr, model, f"arr[{i}] = {v!r:.40}")
        elif op == "getslice":
            sl = gen_slice(rng, n)
            self.trace.append(["getslice", [sl.start, sl.stop, sl.step]])
            try:
                if rng.random() < 0.1:
                    # slice bounds spelled as integer-like objects
                    acc.count("slices_with_index_like_bounds")
                    got = arr[slice(*(IndexLike(x) if x is not None else None for x in (sl.start, sl.stop, sl.step)))]
                else:
                    got = arr[sl]
            except Exception as e:
                self.viol(f"array:getslice-raised:{exc_site(e)}", f"arr[{sl}] raised {type(e).__name__}: {e}")
                raise Fail()
            if got != model.items[sl]:
                self.viol("array:getslice-wrong", f"arr[{sl}] differs from the model")
                raise Fail()
        elif op in ("setslice", "setslice_gen_fail"):
            sl = gen_slice(rng, n)
            idx = list(range(*sl.indices(n)))
            count = rng.choice([len(idx), len(idx), max(0, len(idx) - 1), len(idx) + 2, rng.randint(0, n)])
            vals, first_bad = [], None
            for j in range(count):
                bad_here = rng.random() < (0.12 if op == "setslice" else 0.0)
                v, valid = gen_value(rng, isz, kind=None if bad_here else rng.choice(["ok", "short", "bytearray"]))
                vals.append(v)
                if not valid and first_bad is None and j < len(idx):
                    first_bad = j
            gen_fail_at = None
            if op == "setslice_gen_fail":
                gen_fail_at = rng.randint(0, max(0, min(len(vals), len(idx))))
            self.trace.append([op, [sl.start, sl.stop, sl.step],
                               [x.hex() if isinstance(x, (bytes, bytearray)) else repr(x) for x in vals], gen_fail_at])

            class Boom(Exception):
                pass

            def value_iter():
                for j, x in enumerate(vals):
                    if gen_fail_at is not None and j == gen_fail_at:
                        raise Boom("value iterator failed")
                    yield x
                if gen_fail_at is not None and gen_fail_at >= len(vals):
                    raise Boom("value iterator failed at end")

            def do():
                arr[sl] = value_iter() if (gen_fail_at is not None or rng.random() < 0.5) else list(vals)
            # reference semantics: element j is requested from the values only while indices remain
            fail_req = None if gen_fail_at is None else min(gen_fail_at, len(vals))
            planned, will_fail, fail_pos = [], False, 0
            for j in range(len(idx)):
                if fail_req is not None and j == fail_req:
                    will_fail, fail_pos = True, j
                    break
                if j >= len(vals):
                    break
                if not model.valid_item(vals[j]):
                    will_fail, fail_pos = True, j
                    break
                planned.append((idx[j], model.pad(vals[j])))
            if will_fail:
                acc.add("slice_fail_positions", "middle" if fail_pos > 0 else "first")
                self.expect("setslice-mid-failure" if fail_pos > 0 else "setslice-first-failure", do,
                            (ValueError, TypeError, Boom), arr, model, f"arr[{sl}] = ...")
            else:
                try:
                    do()
                except Exception as e:
                    self.viol(f"array:setslice-raised:{exc_site(e)}", f"arr[{sl}] = ... raised {type(e).__name__}: {e}")
                    raise Fail()
                for i2, v2 in planned:
                    model.items[i2] = v2
                acc.add("slice_steps", sl.step or 1)
                if len(arr) != n:
                    self.viol("array:resized", "slice assignment changed the length")
                    raise Fail()
                if not self.full_compare(arr, model, "after-setslice"):
                    raise Fail()
        elif op == "del":
            i = rng.randint(-n - 1, n + 1)
            self.trace.append(["del", i])

            def do():
                del arr[i]
            if -n <= i < n:
                try:
                    do()
                except Exception as e:
                    self.viol(f"array:del-raised:{exc_site(e)}", f"del arr[{i}] raised {type(e).__name__}: {e}")
                    raise Fail()
                model.items[i] = bytes(isz)
            else:
                self.expect("del-out-of-range", do, (IndexError,), arr, model, f"del arr[{i}]")
        elif op == "delslice":
            sl = gen_slice(rng, n)
            self.trace.append(["delslice", [sl.start, sl.stop, sl.step]])
            try:
                del arr[sl]
            except Exception as e:
                self.viol(f"array:delslice-raised:{exc_site(e)}", f"del arr[{sl}] raised {type(e).__name__}: {e}")
                raise Fail()
            for j in range(*sl.indices(n)):
                model.items[j] = bytes(isz)
            if len(arr) != n:
                self.viol("array:resized", "slice deletion changed the length")
                raise Fail()
        elif op == "clear":
            self.trace.append(["clear"])
            try:
                arr.clear()
            except Exception as e:
                self.viol(f"array:clear-raised:{exc_site(e)}", f"{type(e).__name__}: {e}")
                raise Fail()
            model.items = [bytes(isz)] * n
            if not self.full_compare(arr, model, "after-clear"):
                raise Fail()
        elif op == "iter":
            self.trace.append(["iter"])
            try:
                got = list(arr)
                rev = list(reversed(arr))
            except Exception as e:
                self.viol(f"array:iter-raised:{exc_site(e)}", f"{type(e).__name__}: {e}")
                raise Fail()
            if got != model.items or rev != model.items[::-1]:
                self.viol("array:iter-wrong", "iteration differs from the model")
                raise Fail()
        elif op == "in":
            present = rng.random() < 0.5
            x = rng.choice(model.items) if present else rng.randbytes(isz)
            r0 = rng.random()
            if r0 < 0.15:
                x = x.lstrip(b"\x00") or b"\x00"  # unpadded form: a list would not contain it unless equal
            elif r0 < 0.45 and isz >= 2 and n >= 2:
                # a probe of item size that straddles two neighbouring items (not aligned to an item boundary)
                i0 = rng.randrange(n - 1)
                off = rng.randint(1, isz - 1)
                x = (model.items[i0] + model.items[i0 + 1])[off:off + isz]
                acc.count("membership_probes_across_item_boundary")
            kind = rng.random()
            if kind < 0.12:
                x = bytearray(x)      # bytes-like probes equal to an item: a list of the items says True
                acc.count("membership_probes_bytes_like")
            elif kind < 0.2:
                x = memoryview(x)
                acc.count("membership_probes_bytes_like")
            self.trace.append(["in", bytes(x).hex(), type(x).__name__])
            try:
                got = x in arr
            except Exception as e:
                self.viol(f"array:in-raised:{exc_site(e)}", f"{type(e).__name__}: {e}")
                raise Fail()
            if got != (x in model.items):
                self.viol("array:in-wrong", f"{x!r} in arr = {got}, model {x in model.items}")
                raise Fail()
        elif op == "len":
            self.trace.append(["len"])
            if len(arr) != n or arr.item_size != isz or arr.local_path != path:
                self.viol("array:len-or-properties", f"len={len(arr)} item_size={arr.item_size}")
                raise Fail()
        elif op == "iter_live":
            # an iterator that is partly consumed while the array is written ahead of (and behind) its cursor: a list's
            # iterator yields what is stored at the moment it gets there
            k = rng.randint(0, n)
            writes = [(rng.randrange(n), rng.randbytes(rng.randint(0, isz))) for _ in range(rng.randint(1, 3))]
            self.trace.append(["iter_live", k, [[i, v.hex()] for i, v in writes]])
            acc.count("op.iter_live")
            try:
                it, mit = iter(arr), iter(model.items)
                got, want = [], []
                for _ in range(k):
                    got.append(next(it))
                    want.append(next(mit))
                for i, v in writes:
                    arr[i] = v
                    model.items[i] = model.pad(v)
                got += list(it)
                want += list(mit)
            except Exception as e:
                self.viol(f"array:iter-raised:{exc_site(e)}", f"{type(e).__name__}: {e}")
                raise Fail()
            if got != want:
                self.viol("array:live-iterator-stale", f"an iterator consumed to position {k}, then {len(writes)} writes, "
                                                       f"then the rest: yields differ from a list's iterator at positions "
                                                       f"{[j for j, (a, b) in enumerate(zip(got, want)) if a != b][:4]}")
                raise Fail()
            if not self.full_compare(arr, model, "after-live-iteration"):
                raise Fail()
        elif op == "with_failing":
            # the array used as a context manager; an operation fails inside the block: the block still closes the array
            # (what was written before the failure is on disk, the object is closed)
            i, v = rng.randrange(n), rng.randbytes(rng.randint(0, isz))
            self.trace.append(["with_failing", i, v.hex()])
            acc.count("op.with_failing")
            try:
                with arr as a2:
                    a2[i] = v
                    model.items[i] = model.pad(v)
                    a2[n + 3]    # IndexError
                self.viol("array:with-no-raise", "an out-of-range read inside a with block did not raise")
                raise Fail()
            except IndexError:
                pass
            except Fail:
                raise
            except Exception as e:
                self.viol(f"array:with-raised:{exc_site(e)}", f"{type(e).__name__}: {e}")
                raise Fail()
            try:
                arr[0]
                still_open = True
            except Exception:
                still_open = False
            try:
                arr2 = self.SP.open(path)
            except Exception as e:
                self.viol(f"array:reopen-raised:{exc_site(e)}", f"{type(e).__name__}: {e}")
                raise Fail()
            self.arr = arr2
            if still_open:
                self.viol("array:with-block-left-open", "after a with block that ended in an exception the array object "
                                                        "still accepts operations (it was not closed)")
                raise Fail()
            if not self.full_compare(arr2, model, "after-failing-with-block"):
                raise Fail()
        elif op == "reopen_elsewhere":
            # closed here, read completely by ANOTHER interpreter process (another hash seed, another working directory
            # when the path is absolute), opened again here
            import subprocess
            import sys
            self.trace.append(["close+open", "read-by-another-process"])
            arr.close()
            code = ("import sys, pickle; sys.path.insert(0, sys.argv[2]); "
                    "from data_persistence.persistent_array import SPFLBArray as SP; a = SP.open(sys.argv[1]); "
                    "out = (len(a), a.item_size, a[:]); a.close(); sys.stdout.buffer.write(pickle.dumps(out))")
            try:
                r = subprocess.run([sys.executable, "-B", "-c", code, path, os.environ.get("VERIF_REPO", "/repo")],
                                   capture_output=True, timeout=60,
                                   env=dict(os.environ, PYTHONHASHSEED=str(rng.randrange(1, 2 ** 31))))
            except subprocess.TimeoutExpired:
                r = None
                acc.count("reopen_elsewhere.timeouts")
            if r is not None:
                acc.count("arrays_read_by_another_process")
                if r.returncode != 0:
                    self.viol("array:cannot-be-opened-by-another-process",
                              "an array closed by this process cannot be opened by a fresh interpreter: "
                              + r.stderr.decode(errors="replace").strip().splitlines()[-1][:200])
                    raise Fail()
                import pickle as _p
                ln, sz, items = _p.loads(r.stdout)
                if ln != n or sz != isz or items != model.items:
                    self.viol("array:state-diverged:read-by-another-process",
                              f"another process reads length {ln}, item size {sz} and "
                              f"{sum(1 for a, b in zip(items, model.items) if a != b)} differing items")
                    raise Fail()
            try:
                self.arr = self.SP.open(path)
            except Exception as e:
                self.viol(f"array:reopen-raised:{exc_site(e)}", f"{type(e).__name__}: {e}")
                raise Fail()
            acc.count("reopens")
        elif op == "reopen":
            self.trace.append(["close+open"])
            try:
                arr.close()
                arr.close()  # idempotent
                arr2 = self.SP.open(path)
            except Exception as e:
                self.viol(f"array:reopen-raised:{exc_site(e)}", f"{type(e).__name__}: {e}")
                raise Fail()
            self.arr = arr2
            acc.count("reopens")
            if len(arr2) != n or arr2.item_size != isz:
                self.viol("array:reopen-metadata", "length or item size changed across close+open")
                raise Fail()
            after = rng.choice(["full-read", "nothing", "nothing", "clear"])
            self.trace[-1].append(after)
            if after == "full-read":
                if not self.full_compare(arr2, model, "after-reopen"):
                    raise Fail()
            elif after == "clear":
                # clear right after the reopen, before any chunk has been touched in this session
                acc.count("op.clear-right-after-reopen")
                try:
                    arr2.clear()
                except Exception as e:
                    self.viol(f"array:clear-raised:{exc_site(e)}", f"{type(e).__name__}: {e}")
                    raise Fail()
                model.items = [bytes(isz)] * n
                try:
                    arr2.close()
                    arr2 = self.SP.open(path)
                except Exception as e:
                    self.viol(f"array:reopen-raised:{exc_site(e)}", f"{type(e).__name__}: {e}")
                    raise Fail()
                self.arr = arr2
                if not self.full_compare(arr2, model, "after-reopen-clear-reopen"):
                    raise Fail()
        elif op == "closed_ops":
            self.trace.append(["close; every operation must raise ValueError; open"])
            try:
                arr.close()
            except Exception as e:
                self.viol(f"array:close-raised:{exc_site(e)}", f"{type(e).__name__}: {e}")
                raise Fail()
            v = bytes(isz)

            def _del():
                del arr[0]

            def _set():
                arr[0] = v

            def _setslice():
                arr[0:1] = [v]

            def _delslice():
                del arr[0:1]
            closed_ops = {"read": lambda: arr[0], "read-slice": lambda: arr[0:1], "write": _set,
                          "write-slice": _setslice, "delete": _del, "delete-slice": _delslice,
                          "len": lambda: len(arr), "iter": lambda: list(iter(arr)), "in": lambda: v in arr,
                          "clear": lambda: arr.clear(), "item_size": lambda: arr.item_size}
            for name, fn in closed_ops.items():
                acc.count("closed_ops_checked")
                try:
                    r = fn()
                except ValueError:
                    continue
                except Exception as e:
                    self.viol(f"array:closed-{name}-wrong-exception", f"{name} on a closed array raised "
                                                                       f"{type(e).__name__} instead of ValueError")
                    raise Fail()
                self.viol(f"array:closed-{name}-accepted", f"{name} on a closed array returned {r!r:.50}")
                raise Fail()
            try:
                arr2 = self.SP.open(path)
            except Exception as e:
                self.viol(f"array:reopen-raised:{exc_site(e)}", f"{type(e).__name__}: {e}")
                raise Fail()
            self.arr = arr2
            acc.count("reopens")
            if not self.full_compare(arr2, model, "after-reopen"):
                raise Fail()
        return True


def run_shard(spec, acc, ctx):
    from data_persistence.persistent_array import SPFLBArray
    if not _hook_installed[0]:
        sys.addaudithook(outside_writes_hook(os.path.realpath(ctx.scratch), _outside))
        _hook_installed[0] = True
    rng = ctx.rng
    runner = Runner(acc, ctx, SPFLBArray)
    if spec["kind"] == "seq":
        for s in range(spec["sequences"]):
            if ctx.out_of_time():
                acc.note(f"time budget hit after {s} sequences")
                break
            n = rng.choice([rng.randint(1, 40), rng.randint(1, 8)])
            isz = rng.randint(1, 9)
            nops = rng.randint(5, 40)
            if s % 60 == 7:
                # now and then a long life (hundreds of operations) or a longer array (around 2^8 and beyond)
                nops = rng.randint(300, 900)
                acc.count("long_sequences")
            elif s % 60 == 31:
                n = rng.choice([255, 256, 257, rng.randint(300, 1200)])
                acc.count("long_arrays")
            chunk = rng.choice([rng.randint(1, n + 2), 1, n, n + 1, max(1, n - 1), max(1, n // 2)])
            if n > 100 and chunk < 4:
                chunk = rng.choice([7, 64, 255, 256, 257])
            params = {"n": n, "item_size": isz, "chunk": chunk}
            runner.run(params, nops, rng, from_list=rng.random() < 0.2)
            acc.count("cases")
            acc.add("distinct", fp("s", spec["index"], s))
            acc.count("len_not_multiple_of_chunk" if n % chunk else "len_multiple_of_chunk")
            if s == 0:
                acc.sample({"params": params, "ops": runner.trace[:14]})
    else:
        # all (len, item_size, chunk) triples with len <= max_len, several sequences each
        for n in range(1, spec["max_len"] + 1):
            for isz in (1, 2, 3, 9):
                for chunk in range(1, n + 3):
                    if ctx.out_of_time():
                        acc.note("small-exh stopped early")
                        return
                    for rep in range(3):
                        runner.run({"n": n, "item_size": isz, "chunk": chunk}, 25, rng, from_list=(rep == 2))
                        acc.count("cases")
                        acc.add("distinct", fp("x", n, isz, chunk, rep))
            acc.add("small_lens", n)
    if _outside:
        acc.violation("array:write-outside-directory", f"files opened for writing outside the scratch directory: "
                                                       f"{sorted(set(_outside))[:5]}", {"paths": sorted(set(_outside))[:5]})
    acc.count("outside_write_events", len(_outside))


def replay(case, acc, ctx):
    """Re-executes the recorded operation trace literally against the real class and the reference list."""
    import ast
    import shutil
    from data_persistence.persistent_array import SPFLBArray as SP
    params, ops = case["params"], case["ops"]
    n, isz, chunk = params["n"], params["item_size"], params["chunk"]
    d = ctx.tmpdir("replay")
    path = os.path.join(d, "a")
    if case.get("relative_path"):
        path = os.path.relpath(path)
    prev = case.get("previous_array_at_this_path")
    if prev:
        # an earlier array with another geometry lived at this path in this process: created, reopened, released
        a0 = SP.create(path, item_size=prev["item_size"], array_len=prev["n"], item_num_in_one_file=prev["chunk"])
        a0.close()
        a0 = SP.open(path)
        a0.close()
        a0 = SP.open(path)
        a0.release()
    model = Model(n, isz)
    arr = None

    def val(x):
        try:
            return bytes.fromhex(x)
        except (ValueError, TypeError):
            return ast.literal_eval(x)

    def diverged(step, what):
        acc.violation("array:replay-diverged", f"step {step} {ops[step][:2]}: {what}", {"params": params, "ops": ops[:step + 1]})

    for step, op in enumerate(ops):
        kind = op[0]
        try:
            if kind == "create":
                arr = SP.create(path, item_size=isz, array_len=n, item_num_in_one_file=chunk)
            elif kind == "from_list":
                init = [bytes.fromhex(x) for x in op[1]]
                arr = SP.from_list(init, path, chunk_size=chunk, item_size=isz, list_len=n)
                for i, x in enumerate(init):
                    model.items[i] = model.pad(x)
            elif kind == "get":
                i = op[1]
                spell = {"bool": bool, "IndexLike": IndexLike}.get(op[2] if len(op) > 2 else "int", int)
                try:
                    got = arr[spell(i)]
                    if not (-n <= i < n):
                        return diverged(step, "out-of-range read did not raise")
                    if got != model.items[i]:
                        return diverged(step, f"arr[{i}] = {got!r}, model {model.items[i]!r}")
                except IndexError:
                    if -n <= i < n:
                        return diverged(step, "in-range read raised IndexError")
            elif kind == "set":
                i, v = op[1], val(op[2])
                ok = (-n <= i < n) and model.valid_item(v)
                spell = {"bool": bool, "IndexLike": IndexLike}.get(op[3] if len(op) > 3 else "int", int)
                try:
                    arr[spell(i)] = v
                    if not ok:
                        return diverged(step, "invalid write did not raise")
                    model.items[i] = model.pad(v)
                except (IndexError, ValueError, TypeError):
                    if ok:
                        return diverged(step, "valid write raised")
            elif kind == "getslice":
                sl = slice(*op[1])
                if arr[sl] != model.items[sl]:
                    return diverged(step, "slice read differs")
            elif kind in ("setslice", "setslice_gen_fail"):
                sl = slice(*op[1])
                vals = [val(x) for x in op[2]]
                fail_at = op[3]
                idx = list(range(*sl.indices(n)))

                def it():
                    for j, x in enumerate(vals):
                        if fail_at is not None and j == fail_at:
                            raise RuntimeError("value iterator failed")
                        yield x
                    if fail_at is not None and fail_at >= len(vals):
                        raise RuntimeError("value iterator failed at end")
                fail_req = None if fail_at is None else min(fail_at, len(vals))
                planned, will_fail = [], False
                for j in range(len(idx)):
                    if fail_req is not None and j == fail_req:
                        will_fail = True
                        break
                    if j >= len(vals):
                        break
                    if not model.valid_item(vals[j]):
                        will_fail = True
                        break
                    planned.append((idx[j], model.pad(vals[j])))
                try:
                    arr[sl] = it()
                    if will_fail:
                        return diverged(step, "failing slice assignment did not raise")
                    for i2, v2 in planned:
                        model.items[i2] = v2
                except Exception:
                    if not will_fail:
                        return diverged(step, "valid slice assignment raised")
            elif kind == "del":
                i = op[1]
                try:
                    del arr[i]
                    if not (-n <= i < n):
                        return diverged(step, "out-of-range delete did not raise")
                    model.items[i] = bytes(isz)
                except IndexError:
                    if -n <= i < n:
                        return diverged(step, "in-range delete raised")
            elif kind == "delslice":
                sl = slice(*op[1])
                del arr[sl]
                for j in range(*sl.indices(n)):
                    model.items[j] = bytes(isz)
            elif kind == "clear":
                arr.clear()
                model.items = [bytes(isz)] * n
            elif kind == "iter":
                if list(arr) != model.items:
                    return diverged(step, "iteration differs")
            elif kind == "in":
                x = bytes.fromhex(op[1])
                if len(op) > 2 and op[2] in ("bytearray", "memoryview"):
                    x = {"bytearray": bytearray, "memoryview": memoryview}[op[2]](x)
                if (x in arr) != (x in model.items):
                    return diverged(step, "membership differs")
            elif kind == "len":
                if len(arr) != n:
                    return diverged(step, "len differs")
            elif kind in ("close+open", "final-reopen") or kind.startswith("close;"):
                arr.close()
                arr = SP.open(path)
                if kind == "close+open" and len(op) > 1 and op[1] == "clear":
                    arr.clear()
                    model.items = [bytes(isz)] * n
                    arr.close()
                    arr = SP.open(path)
            if arr is not None and kind not in ("create",):
                if arr[:] != model.items:
                    return diverged(step, "full read differs from the model after this step")
                extra = set(os.listdir(d)) - ({"a_meta"} | {f"a_{k}" for k in range(math.ceil(n / chunk))})
                if extra:
                    return diverged(step, f"stray files {sorted(extra)}")
        except Exception as e:
            return diverged(step, f"raised {type(e).__name__}: {e}")
    acc.count("replayed")
    shutil.rmtree(d, ignore_errors=True)


def finish(m, tier, seed):
    c = m["counters"]
    inc = []
    if c.get("failing_ops", 0) < 100:
        inc.append(f"only {c.get('failing_ops', 0)} failing operations injected")
    if c.get("reopens", 0) < 50:
        inc.append("fewer than 50 close+open cycles")
    if c.get("arrays_read_by_another_process", 0) < 20:
        inc.append(f"only {c.get('arrays_read_by_another_process', 0)} arrays were read by another interpreter process")
    if c.get("paths_reused_for_an_array_of_another_geometry", 0) < 200 or c.get("arrays_addressed_by_a_relative_path", 0) < 200:
        inc.append("too few paths reused for another geometry / too few relative paths")
    if c.get("failing.setslice-mid-failure", 0) < 30:
        inc.append("slice-assignment failures in the middle not reached often enough")
    if c.get("closed_ops_checked", 0) < 100:
        inc.append("closed-array operations hardly checked")
    for cls in ("neg", "nonneg", "wneg", "wnonneg"):
        if cls not in m["sets"].get("index_classes", []):
            inc.append(f"index class {cls} never exercised")
    if "data_persistence/persistent_array.py:SimpleMultiFilePersistentFixedLengthBytesArray._get_bytes_by_index" \
            not in m["sets"].get("functions_entered", []):
        inc.append("_get_bytes_by_index never entered")
    cov = {
        "evaluations": c.get("cases", 0),
        "distinct_nontrivial": len(m["sets"].get("distinct", [])),
        "rule": "case = one (array_len 1..40, item_size 1..9, items_per_file 1..len+2) triple with a seeded sequence of "
                "5..40 operations (reads/writes by +- index, slice reads/writes with any start/stop/step, deletions, "
                "clear, iteration, membership, close+open, post-close operations, failing values and failing value "
                "iterators) compared step by step with the reference list; plus all triples with len <= "
                "max_len x item sizes {1,2,3,9}. Non-trivial: every sequence compares observations and ends with a "
                "close+open full comparison. distinct = distinct (shard, sequence number).",
        "exhaustive": False,
        "operations": {k[3:]: v for k, v in c.items() if k.startswith("op.")},
        "failing_operations": {k[8:]: v for k, v in c.items() if k.startswith("failing.")},
        "full_reads_compared": c.get("full_reads", 0),
        "directory_listings_checked": c.get("dir_listings", 0),
        "reopens": c.get("reopens", 0),
        "closed_array_operations_checked": c.get("closed_ops_checked", 0),
        "write_opens_outside_directory": c.get("outside_write_events", 0),
        "length_not_multiple_of_chunk_cases": c.get("len_not_multiple_of_chunk", 0),
    }
    return {"coverage": cov, "inconclusive": inc,
            "assumptions": ["reference model: python list of left-zero-padded items (props/c19.py)",
                            "a failing operation may raise any exception type; only 'raises and changes nothing' "
                            "is required, post-close operations must raise ValueError"]}
