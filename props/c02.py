"""C02 - searching a keyword that is not in the database returns an empty result and does not raise.

Same engine as C01; judged searches use absent keywords: random ones and adversarially close ones (prefix, suffix,
w+NUL, last byte flipped, w+w, a stored identifier used as keyword ...).
"""
from props import _search_engine as eng
from vlib import gen, sse

LEVEL = "exploration"
SHARD_TIMEOUT = {"quick": 240, "thorough": 1500}


def plan(tier, seed):
    specs = sse.scheme_shards(tier, per_scheme_quick=2, per_scheme_thorough=3, budget_quick=10, budget_thorough=200)
    # CT14 / ANSS16 pad the database with dummy keyword -> identifier pairs; a search for such a dummy keyword returns
    # padding identifiers, so the dummy keywords must be values nobody can compute: fresh in every setup
    for sch in ("CT14.Pi", "ANSS16.Scheme3"):
        specs.append({"name": f"padding-keywords-{gen.SHORT[sch]}", "kind": "padding", "scheme": sch,
                      "rounds": 25 if tier == "quick" else 600, "budget_s": 60 if tier == "quick" else 400})
    from vlib import gen as _g
    for j, sch_ in enumerate(_g.SCHEMES):
        specs.append({"name": f"searched-from-threads-{_g.SHORT[sch_]}", "kind": "threads", "schemes": [sch_],
                      "primitive_monitors": False, "rounds": 1 if tier == "quick" else 12, "seconds_per_scheme": 9,
                      "budget_s": 300})
    for j in range(3):
        specs.append({"name": f"interrupted-and-repeated-{j}", "kind": "interrupted", "schemes": _g.SCHEMES[j::3],
                      "primitive_monitors": False, "rounds": 1 if tier == "quick" else 6, "budget_s": 150})
    for j in range(3):
        specs.append({"name": f"dropped-index-generations-{j}", "kind": "generations", "schemes": _g.SCHEMES[j::3],
                      "rounds": 1 if tier == "quick" else 8, "generations": 120, "budget_s": 120})
    for j in range(2 if tier == "quick" else 4):
        specs.append({"name": f"long-keywords-{j}", "kind": "long_keywords", "index": j * 4,
                      "budget_s": 12 if tier == "quick" else 200})
        specs.append({"name": f"feedback-keywords-{j}", "kind": "feedback", "index": j * 4,
                      "budget_s": 12 if tier == "quick" else 200})
        specs.append({"name": f"steered-values-{j}", "kind": "steered", "index": j * 3,
                      "budget_s": 10 if tier == "quick" else 200})
    return specs


def run_padding(spec, acc, ctx):
    """Hook the PRF while the real EDBSetup runs twice on one (key, database) - the host re-seeds the global `random`
    generator with one value before each - and collect the messages evaluated under the master key that are not
    stored keywords: the dummy keywords. A dummy keyword that occurs in both setups is computable by whoever knows
    the key (or the seed): searching it returns padding identifiers although it is not in the database."""
    import copy
    import random as global_random
    import toolkit.prf.hmac_prf as prf_mod
    scheme = spec["scheme"]
    short = gen.SHORT[scheme]
    rng = ctx.rng
    L = sse.loader(scheme)
    log = []
    orig = prf_mod.HmacPRF.__call__

    def recording(self, key, message):
        log.append((bytes(key), bytes(message)))
        return orig(self, key, message)

    for rnd in range(spec["rounds"]):
        if ctx.out_of_time():
            break
        cid, cfg = gen.pick_config(scheme, rng, rnd)
        try:
            db, info = gen.make_db(rng, scheme, cfg, rng.choice(["zipf", "tiny", "one-heavy", "many-singletons"]), 24)
        except ValueError:
            continue
        N = info["N"]
        if N & (N - 1) == 0:
            db[gen.gen_keyword(rng, 20, set(db))] = gen.gen_ids(rng, gen.caps(scheme, cfg)["id_size"], 1)
            N += 1
            if N & (N - 1) == 0:
                continue
        acc.count("cases")
        acc.count("cases." + short)
        acc.count("padding.cases")
        case = sse.case_desc(scheme, cid, cfg, "padding", db)
        try:
            sch = L.SSEScheme(cfg)
            key = sch.KeyGen()
            master = bytes(key.K)
            seed = rng.getrandbits(32)
            dummies = []
            prf_mod.HmacPRF.__call__ = recording
            try:
                for _ in range(2):
                    del log[:]
                    global_random.seed(seed)
                    edb = sch.EDBSetup(key, copy.deepcopy(db))
                    dummies.append({m for (k, m) in log if k == master and m not in db})
            finally:
                prf_mod.HmacPRF.__call__ = orig
                global_random.seed()
        except Exception as e:
            acc.count("setup_failed")
            acc.note(f"{short}: padding setup failed {type(e).__name__}: {e}")
            continue
        if not dummies[0] or not dummies[1]:
            acc.count("padding.no_dummy_keyword_seen")
            continue
        acc.count("padding.dummy_keywords_seen", len(dummies[0]) + len(dummies[1]))
        common = dummies[0] & dummies[1]
        if common:
            w = sorted(common)[0]
            try:
                got = len(sch.Search(edb, sch.TokenGen(key, w)).get_result_list())
            except Exception:
                got = -1
            acc.violation(f"{short}:padding-keyword-computable",
                          f"{scheme}: {len(common)} of {len(dummies[0])} dummy keywords are the same in two setups of "
                          f"one (key, database) made after seeding the global random generator with one value: they "
                          f"can be computed without being stored, and searching one - a keyword that is not in the "
                          f"database - returns {got} padding identifiers", dict(case, keyword=w))
            return
        acc.add("distinct", sse.case_fp(scheme, "padding-" + cid, db))


def run_shard(spec, acc, ctx):
    if spec.get("kind") == "padding":
        run_padding(spec, acc, ctx)
        return
    if spec.get("kind") == "steered":
        eng.run_steered(spec, acc, ctx, "absent")
        return
    if spec.get("kind") == "feedback":
        eng.run_feedback(spec, acc, ctx, "absent")
        return
    if spec.get("kind") == "generations":
        eng.run_generations(spec, acc, ctx, "absent")
        return
    if spec.get("kind") == "interrupted":
        eng.run_interrupted(spec, acc, ctx, "absent")
        return
    if spec.get("kind") == "long_keywords":
        eng.run_long_keywords(spec, acc, ctx, "absent")
        return
    if spec.get("kind") == "threads":
        eng.run_threads(spec, acc, ctx, "absent")
        return
    eng.run(spec, acc, ctx, "absent")


def replay(case, acc, ctx):
    if case.get("interrupted"):
        acc.count("replayed")
        return eng.run_interrupted({"schemes": [case["scheme"]], "rounds": 2}, acc, ctx, "absent")
    if case.get("generations"):
        acc.count("replayed")
        return eng.run_generations({"schemes": [case["scheme"]], "rounds": 3, "generations": 80}, acc, ctx, "absent")
    if case.get("threads"):
        acc.count("replayed")
        return eng.run_threads({"schemes": [case["scheme"]], "rounds": 3, "seconds_per_scheme": 9}, acc, ctx, "absent")
    if case.get("steered"):
        return eng.replay_steered(case, acc, ctx, "absent")
    scheme, cfg, db = case["scheme"], case["cfg"], case["db"]
    if case.get("db_class") == "padding":
        import copy
        import random as global_random
        import toolkit.prf.hmac_prf as prf_mod
        L = sse.loader(scheme)
        sch = L.SSEScheme(cfg)
        key = sch.KeyGen()
        log, sets = [], []
        orig = prf_mod.HmacPRF.__call__

        def recording(self, k, m):
            log.append((bytes(k), bytes(m)))
            return orig(self, k, m)
        prf_mod.HmacPRF.__call__ = recording
        try:
            for _ in range(2):
                del log[:]
                global_random.seed(12345)
                sch.EDBSetup(key, copy.deepcopy(db))
                sets.append({m for (k, m) in log if k == bytes(key.K) and m not in db})
        finally:
            prf_mod.HmacPRF.__call__ = orig
            global_random.seed()
        if sets[0] & sets[1]:
            acc.violation(f"{gen.SHORT[scheme]}:padding-keyword-computable", "dummy keywords repeat across two setups", case)
        acc.count("replayed")
        return
    st = sse.Setup(scheme, cfg, db)
    acc.count("replayed")
    if st.error is not None:
        acc.note("setup failed in replay")
        return
    try:
        got = st.search(case["keyword"])
        if len(got):
            acc.violation("replay:absent-nonempty", f"{len(got)} identifiers returned", case)
    except Exception as e:
        acc.violation("replay:absent-search-raised", f"{type(e).__name__}: {e}", case)


def finish(m, tier, seed):
    cov, inc = eng.finish(m, tier, "absent", 100)
    c = m["counters"]
    cov["padding_keyword_freshness"] = {"setup_pairs": c.get("padding.cases", 0),
                                        "dummy_keywords_observed": c.get("padding.dummy_keywords_seen", 0),
                                        "pairs_without_dummy_keywords": c.get("padding.no_dummy_keyword_seen", 0)}
    if c.get("padding.dummy_keywords_seen", 0) < 40:
        inc.append("the PRF hook saw too few dummy keywords")
    return {"coverage": cov, "inconclusive": inc,
            "assumptions": ["absent keywords are drawn from the same domain as stored ones (non-empty, no leading NUL, "
                            "within the keyword limit)"]}
