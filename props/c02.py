"""C02 - searching a keyword that is not in the database returns an empty result and does not raise.

Same engine as C01; judged searches use absent keywords: random ones and adversarially close ones (prefix, suffix,
w+NUL, last byte flipped, w+w, a stored identifier used as keyword ...).
"""
from props import _search_engine as eng
from vlib import sse

LEVEL = "exploration"
SHARD_TIMEOUT = {"quick": 240, "thorough": 1500}


def plan(tier, seed):
    return sse.scheme_shards(tier, per_scheme_quick=2, per_scheme_thorough=3, budget_quick=10, budget_thorough=200)


def run_shard(spec, acc, ctx):
    eng.run(spec, acc, ctx, "absent")


def replay(case, acc, ctx):
    scheme, cfg, db = case["scheme"], case["cfg"], case["db"]
    st = sse.Setup(scheme, cfg, db)
    acc.count("replayed")
    if st.error is not None:
        acc.note("setup failed in replay")
        return
    try:
        got = st.search(case["keyword"])
        if len(got):
            acc.violation("replay:absent-nonempty", f"{len(got)} identifiers returned", case)
    except Exception as e:
        acc.violation("replay:absent-search-raised", f"{type(e).__name__}: {e}", case)


def finish(m, tier, seed):
    cov, inc = eng.finish(m, tier, "absent", 100)
    return {"coverage": cov, "inconclusive": inc,
            "assumptions": ["absent keywords are drawn from the same domain as stored ones (non-empty, no leading NUL, "
                            "within the keyword limit)"]}
