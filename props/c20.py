"""C20 - persistent byte dictionaries behave like a dict and survive close/reopen.

Monitor shape: history + executable model (a plain dict). PickledDict: full life cycle (create / from_dict / open,
close+open at arbitrary points, post-close operations, path refusals). DBMDict: one open session per sequence
(the part that works on dbm.dumb, the only backend on this image); each shard is a subprocess under a watchdog
because a second open of a live path blocks on the class-level lock.
"""
import collections
import json
import os
import pickle

from vlib.common import fp, exc_site

LEVEL = "exploration"


TRICKY_VALUES = [pickle.dumps(b"inner bytes"), pickle.dumps(None) + b"trailing", pickle.dumps(b"x", protocol=2),
                 pickle.dumps({"a": 1}), pickle.dumps(b"y", protocol=0), b"\x80\x04\x95", b"\x80", json.dumps({"k": "v"}).encode(),
                 b"\x00" * 7, b"\xff\xfe", b"None", b"b'q'"]


class MissingDict(dict):
    """A dict subclass that answers absent keys instead of raising (valid input to from_dict)."""

    def __missing__(self, key):
        return b"fallback"

SHARD_TIMEOUT = {"quick": 240, "thorough": 1500}
UNIVERSE = [b"k0", b"k1", b"key-two", b"\x00", b"", b"k5" * 20]


def plan(tier, seed):
    specs = []
    for i in range(11 if tier == "quick" else 12):
        specs.append({"name": f"pickled{i}", "cls": "PickledDict", "index": i,
                      "sequences": 3000 if tier == "quick" else 100000, "budget_s": 90 if tier == "quick" else 420})
    for i in range(5 if tier == "quick" else 4):
        specs.append({"name": f"dbm{i}", "cls": "DBMDict", "index": i,
                      "sequences": 500 if tier == "quick" else 20000, "budget_s": 120 if tier == "quick" else 420})
    return specs


class Fail(Exception):
    pass


class Runner:
    def __init__(self, acc, ctx, cls, clsname):
        self.acc, self.ctx, self.cls, self.clsname = acc, ctx, cls, clsname
        self.trace = []

    def viol(self, sig, msg):
        self.acc.violation(f"{self.clsname}:{sig}", msg, {"cls": self.clsname, "ops": self.trace[-55:]})

    def full_compare(self, d, model, why):
        self.acc.count("full_compares")
        try:
            items = {k: d[k] for k in list(d)}
            n = len(d)
        except Exception as e:
            self.viol(f"full-read-raised:{exc_site(e)}", f"{type(e).__name__}: {e} ({why})")
            raise Fail()
        if items != model or n != len(model):
            self.viol(f"state-diverged:{why}", f"contents {sorted(items)[:4]}.. (len {n}) differ from the model "
                                               f"{sorted(model)[:4]}.. (len {len(model)}) ({why})")
            raise Fail()

    def run(self, rng, nops):
        acc, cls = self.acc, self.cls
        full = self.clsname == "PickledDict"
        self.trace = []
        dirp = self.ctx.tmpdir("dict")
        path = os.path.join(dirp, "d")
        model = {}
        try:
            start = rng.choice(["create", "create", "from_dict"])
            if start == "create":
                self.trace.append(["create"])
                d = cls.create(path)
            else:
                src = {k: rng.randbytes(rng.randint(0, 6)) for k in rng.sample(UNIVERSE, rng.randint(0, 5))}
                shape = rng.random()
                if shape < 0.2:      # the source may be any dict: the persistent copy behaves like a plain dict
                    src = collections.defaultdict(bytes, src)
                    acc.count("from_dict_source.defaultdict")
                elif shape < 0.3:
                    src = collections.OrderedDict(src)
                    acc.count("from_dict_source.OrderedDict")
                elif shape < 0.4:
                    src = MissingDict(src)
                    acc.count("from_dict_source.__missing__")
                self.trace.append(["from_dict", {k.hex(): v.hex() for k, v in src.items()}, type(src).__name__])
                d = cls.from_dict(src, path)
                model = dict(src)
                # later mutation of the source must not leak into the persistent dict
                for k in list(src)[:2]:
                    src[k] = b"MUTATED"
                src[b"added-later"] = b"x"
                if src:
                    src.pop(next(iter(src)))
                acc.count("aliasing_checks")
                self.full_compare(d, model, "after-from_dict-source-mutated")
        except Fail:
            return
        except Exception as e:
            self.viol(f"create-raised:{exc_site(e)}", f"{type(e).__name__}: {e}")
            return
        # a second dictionary of the same class open at the same time (30 %): no cross-talk between instances
        sib, sib_model = None, {}
        if rng.random() < 0.3 and full:
            try:
                # (a name a careless implementation might use for its own temporary file)
                sib_path = path + rng.choice(["-sibling", ".tmp", ".bak", "~", ".new"])
                sib = cls.create(sib_path)
                acc.count("sequences_with_a_sibling_dict")
            except Exception as e:
                self.viol(f"sibling-create-raised:{exc_site(e)}", f"{type(e).__name__}: {e}")
                return
        try:
            for step in range(nops):
                if sib is not None and rng.random() < 0.4:
                    k2, v2 = rng.choice(UNIVERSE), rng.randbytes(3)
                    self.trace.append(["sibling-set", k2.hex(), v2.hex()])
                    sib[k2] = v2
                    sib_model[k2] = v2
                    if {k: sib[k] for k in list(sib)} != sib_model:
                        self.viol("sibling-cross-talk", "a second dictionary open at the same time has wrong contents")
                        raise Fail()
                ops = ["set", "get", "del", "in", "len", "iter", "getd", "clear", "sync", "set_nonbytes"]
                w = [24, 16, 10, 8, 5, 6, 8, 2, 4, 6]
                if full:
                    ops += ["reopen", "closed_ops", "path_refusals", "with_block_exception", "reopen_elsewhere"]
                    w += [8, 2, 2, 2, 0.06]
                op = rng.choices(ops, w)[0]
                d = self.apply(op, d, model, rng, path)
            # end of sequence
            if sib is not None:
                if {k: sib[k] for k in list(sib)} != sib_model:
                    self.viol("sibling-cross-talk", "the second dictionary was changed by operations on the first")
                    raise Fail()
                sib.close()
                # the first dictionary is synced / closed and reopened while the second one is closed on disk
                if full and rng.random() < 0.7:
                    d.sync()
                    d.close()
                    d = cls.open(path)
                    self.trace.append(["close+open while the sibling is closed"])
                try:
                    sib = cls.open(sib_path)
                except Exception as e:
                    self.viol(f"sibling-lost:{exc_site(e)}", f"a second dictionary ({os.path.basename(sib_path)}) that was "
                                                            f"closed cannot be reopened after the first one was closed: "
                                                            f"{type(e).__name__}: {e}")
                    raise Fail()
                if {k: sib[k] for k in list(sib)} != sib_model:
                    self.viol("sibling-cross-talk", "the second dictionary differs after close+open")
                    raise Fail()
                sib.close()
            if full:
                self.trace.append(["final close+open"])
                d.close()
                d = cls.open(path)
                acc.count("reopens")
                self.full_compare(d, model, "after-final-reopen")
            else:
                self.full_compare(d, model, "end-of-session")
            d.close()
        except Fail:
            try:
                d.close()
            except Exception:
                pass
        except Exception as e:
            self.viol(f"harness-level-exception:{exc_site(e)}", f"{type(e).__name__}: {e}")
            try:
                d.close()
            except Exception:
                pass

    def apply(self, op, d, model, rng, path):
        acc = self.acc
        acc.count(f"op.{op}")
        k = rng.choice(UNIVERSE)
        if op == "set":
            v = rng.choice([rng.randbytes(rng.randint(0, 8)), b"", bytearray(b"ba"), rng.randbytes(rng.randint(0, 8)),
                            # byte strings that are themselves serialised objects (a store that sniffs its own format
                            # must still give back exactly what was stored)
                            rng.choice(TRICKY_VALUES)])
            self.trace.append(["set", k.hex(), bytes(v).hex()])
            try:
                d[k] = v
            except Exception as e:
                self.viol(f"set-raised:{exc_site(e)}", f"{type(e).__name__}: {e}")
                raise Fail()
            model[k] = v
        elif op == "set_nonbytes":
            import array as _array
            v = rng.choice([1, "s", None, [b"x"], 2.5, _array.array("d", [1.5, -2.0]), _array.array("I", [1, 2]),
                            (b"t",), {b"k": b"v"}])
            self.trace.append(["set-nonbytes", k.hex(), repr(v)])
            acc.count("refusals.nonbytes")
            try:
                d[k] = v
                self.viol("nonbytes-accepted", f"value {v!r} accepted")
                raise Fail()
            except Fail:
                raise
            except Exception:
                pass
            self.full_compare(d, model, "after-refused-nonbytes")
        elif op == "get":
            self.trace.append(["get", k.hex()])
            try:
                got = d[k]
                if k not in model:
                    self.viol("get-missing-returned", f"d[{k!r}] returned {got!r} for a missing key")
                    raise Fail()
                if got != model[k]:
                    self.viol("get-wrong", f"d[{k!r}] = {got!r}, model {model[k]!r}")
                    raise Fail()
            except Fail:
                raise
            except KeyError:
                if k in model:
                    self.viol("get-keyerror-for-present", f"d[{k!r}] raised KeyError but the key is present")
                    raise Fail()
            except Exception as e:
                self.viol(f"get-raised:{exc_site(e)}", f"{type(e).__name__}: {e}")
                raise Fail()
        elif op == "del":
            self.trace.append(["del", k.hex()])
            try:
                del d[k]
                if k not in model:
                    self.viol("del-missing-accepted", "deleting a missing key did not raise")
                    raise Fail()
                del model[k]
            except Fail:
                raise
            except KeyError:
                if k in model:
                    self.viol("del-keyerror-for-present", "del raised KeyError but the key is present")
                    raise Fail()
                self.full_compare(d, model, "after-failed-del")
            except Exception as e:
                self.viol(f"del-raised:{exc_site(e)}", f"{type(e).__name__}: {e}")
                raise Fail()
        elif op in ("in", "len", "iter", "getd"):
            self.trace.append([op, k.hex()])
            try:
                if op == "in":
                    got, want = (k in d), (k in model)
                elif op == "len":
                    got, want = len(d), len(model)
                elif op == "iter":
                    got, want = sorted(d), sorted(model)
                else:
                    dflt = rng.choice([None, b"dflt", 0])
                    got, want = d.get(k, dflt), model.get(k, dflt)
            except Exception as e:
                self.viol(f"{op}-raised:{exc_site(e)}", f"{type(e).__name__}: {e}")
                raise Fail()
            if got != want:
                self.viol(f"{op}-wrong", f"{op}({k!r}) = {got!r:.80}, model {want!r:.80}")
                raise Fail()
        elif op == "clear":
            self.trace.append(["clear"])
            try:
                d.clear()
            except Exception as e:
                self.viol(f"clear-raised:{exc_site(e)}", f"{type(e).__name__}: {e}")
                raise Fail()
            model.clear()
            self.full_compare(d, model, "after-clear")
        elif op == "sync":
            self.trace.append(["sync"])
            try:
                d.sync()
            except Exception as e:
                self.viol(f"sync-raised:{exc_site(e)}", f"{type(e).__name__}: {e}")
                raise Fail()
            self.full_compare(d, model, "after-sync")
        elif op == "reopen":
            self.trace.append(["close+open"])
            try:
                d.close()
                d.close()  # idempotent
                d = self.cls.open(path)
            except Exception as e:
                self.viol(f"reopen-raised:{exc_site(e)}", f"{type(e).__name__}: {e}")
                raise Fail()
            acc.count("reopens")
            self.full_compare(d, model, "after-reopen")
        elif op == "reopen_elsewhere":
            # the dictionary is closed here and opened by ANOTHER interpreter process (another hash seed, as after any
            # restart of a program), which reports what it finds; then this process opens it again
            self.trace.append(["close; open in a fresh interpreter with another hash seed; open"])
            import subprocess
            import sys
            d.close()
            code = ("import sys, pickle; sys.path.insert(0, sys.argv[2]); "
                    "from data_persistence.persistent_dict import PickledDict; d = PickledDict.open(sys.argv[1]); "
                    "items = {k: d[k] for k in list(d)}; n = len(d); d.close(); "
                    "sys.stdout.buffer.write(pickle.dumps((n, items)))")
            env = dict(os.environ, PYTHONHASHSEED=str(rng.randrange(1, 2 ** 31)))
            try:
                r = subprocess.run([sys.executable, "-B", "-c", code, path, os.environ.get("VERIF_REPO", "/repo")],
                                   capture_output=True, timeout=60, env=env)
            except subprocess.TimeoutExpired:
                acc.count("reopen_elsewhere.timeouts")
                r = None
            if r is not None:
                acc.count("reopens_in_another_process")
                if r.returncode != 0:
                    self.viol("cannot-be-opened-by-another-process",
                              "a dictionary closed by this process cannot be opened by a fresh interpreter with another hash "
                              "seed: " + r.stderr.decode(errors="replace").strip().splitlines()[-1][:200])
                    raise Fail()
                import pickle as _p
                n, items = _p.loads(r.stdout)
                if n != len(model) or items != model:
                    self.viol("state-diverged:opened-by-another-process",
                              f"another process finds {n} entries, the model has {len(model)}")
                    raise Fail()
            try:
                d = self.cls.open(path)
            except Exception as e:
                self.viol(f"reopen-raised:{exc_site(e)}", f"{type(e).__name__}: {e}")
                raise Fail()
            self.full_compare(d, model, "after-reopen-elsewhere")
        elif op == "with_block_exception":
            # close, then a `with` block that is LEFT BY AN EXCEPTION after some updates (a lookup / deletion of a missing
            # key raising KeyError as a dict does, a refused str value): leaving the block closes the dictionary, and what
            # a later open() finds is what it held at that moment
            d.close()
            kind = rng.choice(["lookup-missing", "delete-missing", "refused-value"])
            acc.count("with_blocks_left_by_an_exception")
            missing = b"never-stored-" + rng.randbytes(3)
            updates = [(rng.choice(UNIVERSE), rng.randbytes(rng.randint(0, 5))) for _ in range(rng.randint(1, 3))]
            after = dict(model)
            after.update(updates)
            dele = rng.choice(sorted(after)) if after and rng.random() < 0.5 else None
            self.trace.append(["with-block-left-by-exception", kind, [[k.hex(), v.hex()] for k, v in updates],
                               dele.hex() if dele is not None else None, missing.hex()])
            try:
                with self.cls.open(path) as d2:
                    for k, v in updates:
                        d2[k] = v
                        model[k] = v
                    if dele is not None:
                        del d2[dele]
                        del model[dele]
                    if kind == "lookup-missing":
                        d2[missing]
                    elif kind == "delete-missing":
                        del d2[missing]
                    else:
                        d2[b"k0"] = "a str value"
                self.viol("with-block:no-exception", f"{kind} inside a with block did not raise")
                raise Fail()
            except Fail:
                raise
            except (KeyError, TypeError):
                pass
            except Exception as e:
                self.viol(f"with-block:unexpected-exception:{exc_site(e)}", f"{type(e).__name__}: {e}")
                raise Fail()
            try:
                d = self.cls.open(path)
            except Exception as e:
                self.viol(f"reopen-raised:{exc_site(e)}", f"after a with block left by an exception: {type(e).__name__}: {e}")
                raise Fail()
            self.full_compare(d, model, "after-with-block-left-by-an-exception")
        elif op == "closed_ops":
            self.trace.append(["close; every operation must raise ValueError; open"])
            d.close()

            def _set():
                d[b"k0"] = b"v"

            def _del():
                del d[b"k0"]
            for name, fn in {"get": lambda: d[b"k0"], "set": _set, "del": _del, "in": lambda: b"k0" in d,
                             "len": lambda: len(d), "iter": lambda: list(d), "get-default": lambda: d.get(b"k0", 1),
                             "clear": lambda: d.clear(), "sync": lambda: d.sync()}.items():
                acc.count("closed_ops_checked")
                try:
                    r = fn()
                except ValueError:
                    continue
                except Exception as e:
                    self.viol(f"closed-{name}-wrong-exception", f"{name} on a closed dict raised {type(e).__name__} "
                                                                f"instead of ValueError")
                    raise Fail()
                self.viol(f"closed-{name}-accepted", f"{name} on a closed dict returned {r!r:.50}")
                raise Fail()
            try:
                d = self.cls.open(path)
            except Exception as e:
                self.viol(f"reopen-raised:{exc_site(e)}", f"{type(e).__name__}: {e}")
                raise Fail()
            acc.count("reopens")
            self.full_compare(d, model, "after-closed-ops-and-reopen")
        elif op == "path_refusals":
            self.trace.append(["create over existing / open missing"])
            d.sync()
            acc.count("refusals.path")
            try:
                other = self.cls.create(path)
                self.viol("create-over-existing-accepted", "create() on an existing file did not raise")
                try:
                    other.close()
                except Exception:
                    pass
                raise Fail()
            except Fail:
                raise
            except FileExistsError:
                pass
            except Exception as e:
                self.viol("create-over-existing-wrong-exception", f"raised {type(e).__name__} instead of "
                                                                  f"FileExistsError")
                raise Fail()
            # the same through from_dict (with several kinds of source), and whatever was refused: the dictionary that
            # lives at the path is still there, byte for byte
            def file_bytes():
                try:
                    with open(path, "rb") as f:
                        return f.read()
                except OSError as e:
                    return f"<{type(e).__name__}>"
            before = file_bytes() if self.clsname == "PickledDict" else None
            for src in ({}, {b"intruder": b"x"}, dict(model)):
                acc.count("refusals.path.from_dict")
                try:
                    other = self.cls.from_dict(src, path)
                    self.viol("from_dict-over-existing-accepted", "from_dict() on an existing file did not raise")
                    try:
                        other.close()
                    except Exception:
                        pass
                    raise Fail()
                except Fail:
                    raise
                except FileExistsError:
                    pass
                except Exception as e:
                    self.viol("from_dict-over-existing-wrong-exception", f"raised {type(e).__name__} instead of "
                                                                         f"FileExistsError")
                    raise Fail()
            if before is not None:
                after = file_bytes()
                acc.count("refusals.path.file_compared")
                if after != before:
                    self.viol("refused-creation-changed-the-existing-dictionary",
                              f"after refused create() / from_dict() calls over its path the stored dictionary "
                              f"{'is gone' if isinstance(after, str) else 'has other bytes'}")
                    raise Fail()
            try:
                other = self.cls.open(path + ".missing")
                self.viol("open-missing-accepted", "open() on a missing file did not raise")
                raise Fail()
            except Fail:
                raise
            except FileNotFoundError:
                pass
            except Exception as e:
                self.viol("open-missing-wrong-exception", f"raised {type(e).__name__} instead of FileNotFoundError")
                raise Fail()
            if os.path.exists(path + ".missing"):
                self.viol("open-missing-created-file", "a refused open() left a file behind")
                raise Fail()
            self.full_compare(d, model, "after-path-refusals")
        return d


def run_shard(spec, acc, ctx):
    import data_persistence.persistent_dict as pd
    clsname = spec["cls"]
    cls = getattr(pd, clsname)
    rng = ctx.rng
    runner = Runner(acc, ctx, cls, clsname)
    for s in range(spec["sequences"]):
        if ctx.out_of_time():
            acc.note(f"{spec['name']}: time budget hit after {s} sequences")
            break
        runner.run(rng, rng.randint(5, 50) if acc.counters.get("cases", 0) % 50 != 9 else rng.randint(400, 1200))
        acc.count("cases")
        acc.count("cases." + clsname)
        acc.add("distinct", fp(clsname, spec["index"], s))
        if s == 0:
            acc.sample({"cls": clsname, "ops": runner.trace[:16]})
    if clsname == "DBMDict":
        # open of a missing path is refused (works on every backend)
        acc.count("refusals.path")
        try:
            cls.open(os.path.join(ctx.scratch, "no-such-dbm"))
            acc.violation("DBMDict:open-missing-accepted", "open() on a missing path did not raise", {})
        except FileNotFoundError:
            pass


def replay(case, acc, ctx):
    """Re-executes the recorded operation trace literally against the real class and a plain dict."""
    import ast
    import data_persistence.persistent_dict as pd
    cls = getattr(pd, case["cls"])
    ops = case["ops"]
    path = os.path.join(ctx.tmpdir("replay"), "d")
    model, d = {}, None

    def diverged(step, what):
        acc.violation(f"{case['cls']}:replay-diverged", f"step {step} {ops[step][:2]}: {what}",
                      {"cls": case["cls"], "ops": ops[:step + 1]})

    for step, op in enumerate(ops):
        kind = op[0]
        try:
            if kind == "create":
                d = cls.create(path)
            elif kind == "from_dict":
                src = {bytes.fromhex(k): bytes.fromhex(v) for k, v in op[1].items()}
                shape = op[2] if len(op) > 2 else "dict"
                src = {"defaultdict": lambda x: collections.defaultdict(bytes, x), "OrderedDict": collections.OrderedDict,
                       "MissingDict": MissingDict}.get(shape, dict)(src)
                d = cls.from_dict(src, path)
                model = dict(src)
                src[b"added-later"] = b"x"
            elif kind == "set":
                d[bytes.fromhex(op[1])] = bytes.fromhex(op[2])
                model[bytes.fromhex(op[1])] = bytes.fromhex(op[2])
            elif kind == "set-nonbytes":
                try:
                    import array  # noqa: the recorded repr may be an array('d', [...])
                    d[bytes.fromhex(op[1])] = eval(op[2], {"array": array.array, "__builtins__": {}})
                    return diverged(step, "non-bytes value accepted")
                except TypeError:
                    pass
            elif kind == "get":
                k = bytes.fromhex(op[1])
                try:
                    if d[k] != model.get(k, object()):
                        return diverged(step, "get differs")
                except KeyError:
                    if k in model:
                        return diverged(step, "KeyError for a present key")
            elif kind == "del":
                k = bytes.fromhex(op[1])
                try:
                    del d[k]
                    if k not in model:
                        return diverged(step, "deleting a missing key did not raise")
                    del model[k]
                except KeyError:
                    if k in model:
                        return diverged(step, "KeyError for a present key")
            elif kind in ("in", "len", "iter", "getd"):
                k = bytes.fromhex(op[1])
                if (k in d) != (k in model) or len(d) != len(model) or sorted(d) != sorted(model) or \
                        d.get(k, None) != model.get(k, None):
                    return diverged(step, "observation differs")
            elif kind == "clear":
                d.clear()
                model.clear()
            elif kind == "sync":
                d.sync()
            elif kind == "with-block-left-by-exception":
                d.close()
                try:
                    with cls.open(path) as d2:
                        for k, v in op[2]:
                            d2[bytes.fromhex(k)] = bytes.fromhex(v)
                            model[bytes.fromhex(k)] = bytes.fromhex(v)
                        if op[3] is not None:
                            del d2[bytes.fromhex(op[3])]
                            del model[bytes.fromhex(op[3])]
                        if op[1] == "lookup-missing":
                            d2[bytes.fromhex(op[4])]
                        elif op[1] == "delete-missing":
                            del d2[bytes.fromhex(op[4])]
                        else:
                            d2[b"k0"] = "a str value"
                    return diverged(step, "no exception inside the with block")
                except (KeyError, TypeError):
                    pass
                d = cls.open(path)
            elif kind.startswith("close; open in a fresh interpreter"):
                import subprocess
                import sys
                d.close()
                code = ("import sys; sys.path.insert(0, sys.argv[2]); "
                        "from data_persistence.persistent_dict import PickledDict; d = PickledDict.open(sys.argv[1]); "
                        "print(len(d)); d.close()")
                r = subprocess.run([sys.executable, "-B", "-c", code, path, os.environ.get("VERIF_REPO", "/repo")],
                                   capture_output=True, timeout=60, env=dict(os.environ, PYTHONHASHSEED="12345"))
                if r.returncode != 0:
                    return diverged(step, "another interpreter process cannot open the dictionary: "
                                    + r.stderr.decode(errors="replace").strip().splitlines()[-1][:160])
                if int(r.stdout.split()[0]) != len(model):
                    return diverged(step, "another interpreter process finds another number of entries")
                d = cls.open(path)
            elif kind in ("close+open", "final close+open") or kind.startswith("close;"):
                d.close()
                d = cls.open(path)
            elif kind.startswith("create over existing"):
                d.sync()
                try:
                    cls.create(path)
                    return diverged(step, "create over an existing file accepted")
                except FileExistsError:
                    pass
            if d is not None and {k: d[k] for k in list(d)} != model:
                return diverged(step, "contents differ from the model after this step")
        except Exception as e:
            return diverged(step, f"raised {type(e).__name__}: {e}")
    if d is not None:
        d.close()
    acc.count("replayed")


def finish(m, tier, seed):
    c = m["counters"]
    inc = []
    if c.get("cases.PickledDict", 0) < 500:
        inc.append("fewer than 500 PickledDict sequences")
    if c.get("cases.DBMDict", 0) < 100:
        inc.append("fewer than 100 DBMDict sequences")
    if c.get("reopens", 0) < 300:
        inc.append("fewer than 300 close+open cycles")
    if c.get("reopens_in_another_process", 0) < 20:
        inc.append(f"only {c.get('reopens_in_another_process', 0)} dictionaries were opened by another interpreter process")
    if c.get("with_blocks_left_by_an_exception", 0) < 100:
        inc.append("fewer than 100 with blocks left by an exception")
    if c.get("aliasing_checks", 0) < 50:
        inc.append("from_dict aliasing hardly checked")
    if c.get("closed_ops_checked", 0) < 100 or c.get("refusals.path", 0) < 20 or c.get("refusals.nonbytes", 0) < 100:
        inc.append("refusal checks too few")
    ent = m["sets"].get("functions_entered", [])
    for fn in ("data_persistence/persistent_dict.py:PickledDict.sync", "data_persistence/bytes_shelf.py:BytesShelf.sync"):
        if fn not in ent:
            inc.append(fn + " never entered")
    cov = {
        "evaluations": c.get("cases", 0),
        "distinct_nontrivial": len(m["sets"].get("distinct", [])),
        "rule": "case = one seeded sequence of 5..50 operations over a 6-key universe (set/get/del/in/len/iter/"
                "get-default/clear/sync/non-bytes value; PickledDict also close+open, post-close operations, create "
                "over existing, open of missing) compared step by step with a plain dict and fully compared after "
                "every refusal, clear, sync and reopen; every sequence ends with a full comparison (after a final "
                "close+open for PickledDict). distinct = distinct (class, shard, sequence number).",
        "exhaustive": False,
        "sequences": {"PickledDict": c.get("cases.PickledDict", 0), "DBMDict": c.get("cases.DBMDict", 0)},
        "operations": {k[3:]: v for k, v in c.items() if k.startswith("op.")},
        "reopens": c.get("reopens", 0),
        "aliasing_checks": c.get("aliasing_checks", 0),
        "closed_dict_operations_checked": c.get("closed_ops_checked", 0),
        "refusals": {k[9:]: v for k, v in c.items() if k.startswith("refusals.")},
        "full_compares": c.get("full_compares", 0),
    }
    return {"coverage": cov, "inconclusive": inc,
            "assumptions": ["DBMDict is exercised within one open session only (dbm.dumb stores <path>.dat/.dir, so "
                            "its reopen / create-over-existing cannot work on this image and are outside the property)",
                            "iteration is compared as a sorted list (order is not part of the property)"]}
