"""C16 - PRF and hash wrappers: deterministic, exact output length, standard-conformant, length contracts.

Monitor shape: differential oracle. The real HmacPRF / hash wrapper (obtained through the by-name factories the
schemes use) are compared with reference implementations written here from RFC 5246 section 5 (P_hash) and from
the documented counter-mode construction, over seeded (digest, key, message, output length) draws and a full
output-length sweep 1..200 per digest.
"""
import hashlib
import hmac

from vlib.common import fp

LEVEL = "exploration"
INSITU_OWNED = ("insitu:prf",)
PRF_DIGESTS = ("sha1", "sha256", "sha512", "md5")
HASH_DIGESTS = PRF_DIGESTS + ("shake_128", "shake_256")


def ref_p_hash(secret, seed, n, digest):
    """RFC 5246: P_hash(secret, seed) = HMAC(secret, A(1)+seed) + HMAC(secret, A(2)+seed) + ...; A(0)=seed."""
    out = b""
    a = seed
    while len(out) < n:
        a = hmac.digest(secret, a, digest)
        out += hmac.digest(secret, a + seed, digest)
    return out[:n]


def ref_hash(message, n, digest):
    if digest.startswith("shake"):
        return hashlib.new(digest, message).digest(n)
    out = b""
    c = 1
    while len(out) < n:
        cb = c.to_bytes((c.bit_length() + 7) // 8, "big")
        out += hashlib.new(digest, message + cb).digest()
        c += 1
    return out[:n]


def plan(tier, seed):
    specs = []
    n = 8 if tier == "quick" else 14
    per = 3000 if tier == "quick" else 600000
    for i in range(n):
        specs.append({"name": f"rand{i}", "kind": "rand", "index": i, "cases": per,
                      "budget_s": 60 if tier == "quick" else 420})
    specs.append({"name": "sweep", "kind": "sweep"})
    # one PRF object and one hash object shared by four threads (different keys / messages), forced thread switches
    specs.append({"name": "shared-by-threads", "kind": "threads", "primitive_monitors": False,
                  "rounds": 6 if tier == "quick" else 200, "budget_s": 60 if tier == "quick" else 300})
    specs.append({"name": "contracts", "kind": "contracts"})
    if tier == "thorough":
        specs.append({"name": "repo-tests", "kind": "repo_tests", "primitive_monitors": False})
    from vlib.common import both_interpreter_modes
    return both_interpreter_modes(specs)


_PRF_POOL, _HASH_POOL = {}, {}


def check_prf(acc, prf_mod, rng, digest, key, msg, n, declared):
    kw = {"output_length": n, "hash_func_name": digest}
    if declared:
        kw.update(key_length=len(key), message_length=len(msg))
    case = {"digest": digest, "key": key, "message": msg, "n": n}
    acc.count("prf.cases")
    acc.add("prf_out_lens", n)
    acc.add("prf_digests", digest)
    nclass = "short" if n < hashlib.new(digest).digest_size else ("equal" if n == hashlib.new(digest).digest_size
                                                                  else "long")
    try:
        pk = tuple(sorted(kw.items()))
        f = _PRF_POOL.get(pk) if rng.random() < 0.7 else None   # mostly an instance that has served other inputs
        acc.count("prf.instance_reused" if f is not None else "prf.instance_fresh")
        if f is None:
            f = prf_mod.get_prf_implementation(rng.choice(["HmacPRF", "hmac-prf", "HMAC_PRF", "hmacprf"]))(**kw)
            if len(_PRF_POOL) < 4000:
                _PRF_POOL[pk] = f
        out = f(key, msg)
        out2 = f(key, msg)
    except Exception as e:
        acc.violation(f"prf:raised:{nclass}", f"{type(e).__name__}: {e}", case)
        return None
    if len(out) != n:
        acc.violation(f"prf:length:{nclass}", f"len={len(out)} requested {n}", case)
    if out != out2:
        acc.violation("prf:nondeterministic", "two calls differ", case)
    if out != ref_p_hash(key, msg, n, digest):
        acc.violation(f"prf:differs-from-rfc5246:{nclass}", "output != reference P_hash", case)
    elif rng.random() < 0.2:
        buffers(acc, "prf", lambda k, m: f(k, m), key, msg, out, case)
    return out


def buffers(acc, who, call, key, msg, want, case):
    """Key / message handed over in caller-owned bytearrays, the call repeated on the same buffers: refusing the type
    is fine; a different answer, a changed buffer or a second answer that differs is not."""
    acc.count(who + ".caller_buffers")
    kb = bytearray(key) if key is not None else None
    mb = bytearray(msg)
    try:
        o1 = call(kb, mb)
        o2 = call(kb, mb)
    except TypeError:
        acc.count(who + ".caller_buffers_refused")
        return
    except Exception as e:
        acc.violation(f"{who}:bytearray-input-raised", f"{type(e).__name__}: {e}", case)
        return
    if bytes(mb) != msg or (kb is not None and bytes(kb) != key):
        acc.violation(f"{who}:caller-buffer-mutated", f"the call changed the caller's bytearray "
                                                      f"({len(msg)} -> {len(mb)} message bytes)", case)
    elif o1 != want or o2 != want:
        acc.violation(f"{who}:bytearray-input-differs", "the output for a bytearray input (or for the same buffer "
                                                        "passed a second time) differs from the output for bytes", case)


def check_hash(acc, hash_mod, rng, digest, msg, n):
    case = {"digest": digest, "message": msg, "n": n}
    acc.count("hash.cases")
    acc.add("hash_out_lens", n)
    acc.add("hash_digests", digest)
    base = hashlib.new(digest).digest_size or 32
    nclass = "xof" if digest.startswith("shake") else ("short" if n < base else ("equal" if n == base else "long"))
    try:
        name = rng.choice([digest, digest.upper()]) if not digest.startswith("shake") else digest
        h = _HASH_POOL.get((digest, n)) if rng.random() < 0.7 else None
        acc.count("hash.instance_reused" if h is not None else "hash.instance_fresh")
        if h is None:
            h = hash_mod.get_hash_implementation(name)(output_length=n)
            _HASH_POOL[(digest, n)] = h
        out = h(msg)
        out2 = h(msg)
    except Exception as e:
        acc.violation(f"hash:raised:{nclass}", f"{type(e).__name__}: {e}", case)
        return None
    if len(out) != n:
        acc.violation(f"hash:length:{nclass}", f"len={len(out)} requested {n}", case)
    if out != out2:
        acc.violation("hash:nondeterministic", "two calls differ", case)
    if out != ref_hash(msg, n, digest):
        acc.violation(f"hash:differs-from-reference:{nclass}", "output != reference expansion", case)
    elif rng.random() < 0.2:
        buffers(acc, "hash", lambda k, m: h(m), None, msg, out, case)
    return out


def expect_value_error(acc, name, fn, again=None):
    acc.count("contract." + name)
    try:
        r = fn()
    except ValueError:
        # the same refused call once more (error paths must not leave state behind that lets it through)
        if again is not None:
            try:
                r2 = again()
                acc.violation("prfhash:contract:" + name + ":accepted-on-repeat",
                              f"refused at first, accepted when repeated (returned {r2!r:.60})", {"contract": name})
            except ValueError:
                pass
            except Exception as e:
                acc.violation("prfhash:contract:" + name, f"repeat raised {type(e).__name__}: {e}", {"contract": name})
        return
    except Exception as e:
        acc.violation("prfhash:contract:" + name, f"raised {type(e).__name__} instead of ValueError: {e}",
                      {"contract": name})
        return
    acc.violation("prfhash:contract:" + name, f"accepted (returned {r!r:.60})", {"contract": name})


def run_shard(spec, acc, ctx):
    import toolkit.prf as prf_mod
    import toolkit.hash as hash_mod
    rng = ctx.rng
    kind = spec["kind"]
    if kind == "repo_tests":
        from vlib import repotests
        repotests.run(acc, ctx, ["test/test_sse_schemes/test_CJJ14_PiPtr.py", "test/test_sse_schemes/test_ANSS16_Scheme3.py"],
                      ["insitu:prf"])
        return
    if kind == "threads":
        import os
        import threading
        from vlib import instrument
        repo = os.environ.get("VERIF_REPO", "/repo")
        for rnd in range(spec["rounds"]):
            if ctx.out_of_time():
                break
            digest = PRF_DIGESTS[rnd % len(PRF_DIGESTS)]
            n = rng.choice([16, 20, 33, 64, 100])
            f = prf_mod.get_prf_implementation("HmacPRF")(output_length=n, hash_func_name=digest)
            h = hash_mod.get_hash_implementation(digest)(output_length=n)
            keys = [rng.randbytes(rng.choice([16, 32, 64])) for _ in range(4)]
            msgs = [[rng.randbytes(rng.randint(0, 60)) for _ in range(10)] for _ in range(4)]
            want = [[(ref_p_hash(keys[i], m, n, digest), ref_hash(m, n, digest)) for m in msgs[i]] for i in range(4)]
            bad = []
            done = [0]
            stop = threading.Event()

            def worker(i):
                def go():
                    for rep in range(3):
                        for j, m in enumerate(msgs[i]):
                            if stop.is_set():
                                return
                            try:
                                got = (f(keys[i], m), h(m))
                            except Exception as e:
                                got = repr(e)
                            if got != want[i][j]:
                                bad.append((i, j, "PRF" if not isinstance(got, tuple) or got[0] != want[i][j][0] else "hash"))
                                stop.set()
                                return
                            done[0] += 1
                return go
            with instrument.YieldInjector(repo, every=2) as yi:
                errs = instrument.run_threads([worker(i) for i in range(4)], timeout=60)
            acc.count("threads.calls_compared", done[0])
            acc.count("threads.forced_switch_points", yi.yields)
            acc.count("cases")
            acc.add("distinct", fp("threads", rnd))
            if any(isinstance(e, TimeoutError) for e in errs):
                acc.count("threads.watchdog")
            if bad:
                i, j, which = bad[0]
                acc.violation(f"{'prf' if which == 'PRF' else 'hash'}:wrong-when-shared-by-threads",
                              f"four threads share one {which} object ({digest}, {n} bytes): thread {i}'s output for its "
                              f"message {j} differs from the reference", {"digest": digest, "n": n, "threads": True})
                return
        return
    if kind == "rand":
        seen_prf, seen_hash = {}, {}
        fixed_klen = rng.choice([16, 24, 32])
        for i in range(spec["cases"]):
            if ctx.out_of_time():
                break
            digest = rng.choice(PRF_DIGESTS)
            key = rng.randbytes(rng.choice([rng.randint(0, 80), 0, 1, 63, 64, 65, 80]))
            msg = rng.randbytes(rng.choice([rng.randint(0, 200), 0, 1, 64, 200]))
            n = rng.choice([rng.randint(1, 200), 1, 15, 16, 19, 20, 21, 31, 32, 33, 63, 64, 65, 200])
            check_prf(acc, prf_mod, rng, digest, key, msg, n, declared=rng.random() < 0.5)
            if i % 7 == 3 and len(msg) >= 2:
                # the same bytes split differently between key and message (with and without a separator byte that a
                # hand-built lookup key might use): P_hash(k, a.s.b) and P_hash(k.s.a, b) are unrelated values
                j = rng.randrange(len(msg))
                sep = rng.choice([b"", b"", b"|", b"\x00", b":", b",", b"/", b" ", b"\n", b"\xff", b"-", b"_"])
                a, b = msg[:j], msg[j:]
                acc.count("prf.boundary_shift_pairs")
                check_prf(acc, prf_mod, rng, digest, key, a + sep + b, n, declared=False)
                check_prf(acc, prf_mod, rng, digest, key + sep + a, b, n, declared=False)
                check_hash(acc, hash_mod, rng, rng.choice(HASH_DIGESTS), a + sep + b, n)
            hd = rng.choice(HASH_DIGESTS)
            check_hash(acc, hash_mod, rng, hd, msg, n)
            # distinctness: fixed key length, n >= 16, near-duplicate inputs
            k2 = rng.randbytes(fixed_klen)
            m2 = rng.choice([msg, msg + b"\x00", b"\x00" + msg, msg[:-1] if msg else b"\x01", rng.randbytes(8)])
            n2 = rng.choice([16, 20, 32, 48])
            out = check_prf(acc, prf_mod, rng, "sha1", k2, m2, n2, declared=False)
            if out is not None:
                prev = seen_prf.get((n2, out))
                acc.count("prf.distinctness")
                if prev is not None and prev != (k2, m2):
                    acc.violation("prf:collision", "two distinct (k, m) gave the same output",
                                  {"a": list(prev), "b": [k2, m2], "n": n2})
                seen_prf[(n2, out)] = (k2, m2)
            ho = check_hash(acc, hash_mod, rng, "sha1", m2, n2)
            if ho is not None:
                prev = seen_hash.get((n2, ho))
                acc.count("hash.distinctness")
                if prev is not None and prev != m2:
                    acc.violation("hash:collision", "two distinct messages gave the same output",
                                  {"a": prev, "b": m2, "n": n2})
                seen_hash[(n2, ho)] = m2
            acc.count("cases")
            acc.add("distinct", fp("r", spec["index"], i))
            if i == 0:
                acc.sample({"digest": digest, "key_len": len(key), "msg_len": len(msg), "n": n})
    elif kind == "sweep":
        for digest in HASH_DIGESTS:
            key, msg = rng.randbytes(32), rng.randbytes(37)
            for n in range(1, 201):
                if digest in PRF_DIGESTS:
                    check_prf(acc, prf_mod, rng, digest, key, msg, n, declared=False)
                check_hash(acc, hash_mod, rng, digest, msg, n)
                acc.count("cases")
                acc.add("distinct", fp("s", digest, n))
                acc.add("sweep_" + digest, n)
        # default output length = digest size
        for digest in PRF_DIGESTS:
            f = prf_mod.get_prf_implementation("HmacPRF")(hash_func_name=digest)
            ds = hashlib.new(digest).digest_size
            acc.count("prf.default_len")
            if len(f(b"k", b"m")) != ds or f.output_length != ds:
                acc.violation("prf:default-length", "default output length != digest size", {"digest": digest})
            h = hash_mod.get_hash_implementation(digest)()
            if len(h(b"m")) != ds or h.output_length != ds or h(b"m") != ref_hash(b"m", ds, digest):
                acc.violation("hash:default-length", "default output length != digest size", {"digest": digest})
    elif kind == "contracts":
        P = prf_mod.get_prf_implementation("HmacPRF")
        for bad in ("", "hmac", "AES-CBC", "prf", "BitwiseFPEPRP"):
            expect_value_error(acc, "unknown-prf-name", lambda: prf_mod.get_prf_implementation(bad))
        for bad in ("", "sha3000", "HmacPRF", "crc32", "sha-1x"):
            expect_value_error(acc, "unknown-hash-name", lambda: hash_mod.get_hash_implementation(bad))
            expect_value_error(acc, "unknown-prf-digest", lambda: P(output_length=16, hash_func_name=bad or "nope"))
        # every declared-length PRF (and hash objects of several output lengths) is built FIRST and stays alive while each
        # one is used, in shuffled order: a declaration belongs to its object
        live = {}
        for digest in PRF_DIGESTS:
            for kl in (0, 1, 16, 24, 32, 80):
                for ml in (0, 1, 5, 32):
                    try:
                        live[(digest, kl, ml)] = P(output_length=24, key_length=kl, message_length=ml, hash_func_name=digest)
                    except Exception as e:
                        acc.violation("prf:declared-lengths:constructor-raised",
                                      f"HmacPRF(output_length=24, key_length={kl}, message_length={ml}) raised "
                                      f"{type(e).__name__}: {e}", {"digest": digest, "kl": kl, "ml": ml})
        free = {d: P(output_length=20, hash_func_name=d) for d in PRF_DIGESTS}
        hashes = {(d, n): hash_mod.get_hash_implementation(d)(output_length=n) for d in HASH_DIGESTS for n in (1, 20, 33, 100)}
        order = list(live)
        rng.shuffle(order)
        for (digest, kl, ml) in order:
            # objects without declared key / message lengths, next to the declared ones
            k0, m0 = rng.randbytes(rng.choice([0, 3, 40])), rng.randbytes(rng.choice([0, 7, 60]))
            acc.count("contract.undeclared-next-to-declared")
            try:
                if free[digest](k0, m0) != ref_p_hash(k0, m0, 20, digest):
                    acc.violation("prf:undeclared-instance-wrong", "a PRF without declared lengths differs from the reference "
                                                                   "while declared-length PRFs are alive", {"digest": digest})
            except Exception as e:
                acc.violation("prf:undeclared-instance-refuses",
                              f"a PRF that declares no key / message length refused a {len(k0)}-byte key and a "
                              f"{len(m0)}-byte message while declared-length PRFs are alive: {type(e).__name__}: {e}",
                              {"digest": digest})
            hd, hn = rng.choice(list(hashes))
            mm = rng.randbytes(rng.choice([0, 9, 70]))
            try:
                if hashes[(hd, hn)](mm) != ref_hash(mm, hn, hd):
                    acc.violation("hash:wrong-next-to-other-instances", f"{hd} with output_length={hn} differs from the "
                                                                        f"reference while other instances are alive",
                                  {"digest": hd, "n": hn})
            except Exception as e:
                acc.violation("hash:raised-next-to-other-instances", f"{type(e).__name__}: {e}", {"digest": hd, "n": hn})
            if True:
                if True:
                    f = live[(digest, kl, ml)]
                    k, m = rng.randbytes(kl), rng.randbytes(ml)
                    acc.count("contract.positive")
                    if f(k, m) != ref_p_hash(k, m, 24, digest):
                        acc.violation("prf:declared-lengths", "declared-length PRF differs from reference",
                                      {"digest": digest, "kl": kl, "ml": ml})
                    for d in (-1, 1):
                        if kl + d >= 0:
                            bad_k = rng.randbytes(kl + d)
                            expect_value_error(acc, "prf-key-length", lambda: f(bad_k, m), again=lambda: f(bad_k, m))
                        if ml + d >= 0:
                            bad_m = rng.randbytes(ml + d)
                            expect_value_error(acc, "prf-message-length", lambda: f(k, bad_m), again=lambda: f(k, bad_m))
                        # and the instance still answers correctly for a valid call afterwards
                        if f(k, m) != ref_p_hash(k, m, 24, digest):
                            acc.violation("prf:wrong-after-refusal", "valid call after a refused one differs from the "
                                                                     "reference", {"digest": digest, "kl": kl, "ml": ml})
                    acc.count("cases")
                    acc.add("distinct", fp("c", digest, kl, ml))


def replay(case, acc, ctx):
    import toolkit.prf as prf_mod
    import toolkit.hash as hash_mod
    if "key" in case:
        check_prf(acc, prf_mod, ctx.rng, case["digest"], case["key"], case["message"], case["n"], False)
    elif "message" in case:
        check_hash(acc, hash_mod, ctx.rng, case["digest"], case["message"], case["n"])


def finish(m, tier, seed):
    c = m["counters"]
    inc = []
    if c.get("threads.calls_compared", 0) < 100:
        inc.append("the shared-by-threads workload observed too little")
    if c.get("prf.cases", 0) < 3000 or c.get("hash.cases", 0) < 3000:
        inc.append("fewer than 3000 PRF/hash comparisons")
    for d in HASH_DIGESTS:
        if len(m["sets"].get("sweep_" + d, [])) < 200:
            inc.append(f"output-length sweep 1..200 incomplete for {d}")
    if c.get("contract.prf-key-length", 0) < 20 or c.get("contract.prf-message-length", 0) < 20:
        inc.append("length contracts not exercised")
    for fn in ("toolkit/prf/hmac_prf.py:_tls_p_hash",
               "toolkit/hash.py:HashlibHashVariableOutputLengthWrapper._ctr_expand"):
        if fn not in m["sets"].get("functions_entered", []):
            inc.append(fn + " never entered")
    cov = {
        "evaluations": c.get("cases", 0),
        "distinct_nontrivial": len(m["sets"].get("distinct", [])),
        "rule": "case = one seeded draw (digest, key 0..80 B, message 0..200 B, output length 1..200) compared with the "
                "reference P_hash and reference hash expansion, plus a near-duplicate (k,m) for the distinctness set; "
                "sweep shard: every output length 1..200 for each digest; contract shard: declared key/message lengths "
                "off by +-1. Every case evaluates the oracle; distinct = distinct generator coordinates.",
        "exhaustive": False,
        "objects_shared_by_four_threads": {k[8:]: v for k, v in c.items() if k.startswith("threads.")},
        "prf_digests": sorted(m["sets"].get("prf_digests", [])),
        "hash_digests": sorted(m["sets"].get("hash_digests", [])),
        "prf_output_lengths_seen": len(m["sets"].get("prf_out_lens", [])),
        "hash_output_lengths_seen": len(m["sets"].get("hash_out_lens", [])),
        "contract_checks": {k[9:]: v for k, v in c.items() if k.startswith("contract.")},
        "insitu_contract_evaluations": {k: v for k, v in c.items() if k.startswith("insitu.")},
        "repository_tests_under_monitors": {k: v for k, v in c.items() if k.startswith("repo_tests.")},
    }
    return {"coverage": cov, "inconclusive": inc,
            "assumptions": ["hashlib / hmac of the standard library are the trusted primitives of the reference",
                            "distinctness is checked among keys of one fixed length (HMAC zero-pads keys)"]}
