"""C14 - symmetric encryption: correct decryption, fixed expansion, fresh randomness, length contracts.

Monitor shape: post-conditions on the real AESxCBC obtained through get_symmetric_encryption_implementation,
plus an independent recomputation of every ciphertext (hand-written PKCS7 + the `cryptography` AES-CBC primitive
driven directly with the IV observed in the ciphertext), plus a process-wide (key, IV) uniqueness set and 20 000 encryptions of one (key, message) pair, plus a
"hostile callers" shard: caller-owned bytearrays that are reused, a host that re-seeds `random`, workers forked
after the first encryption, refused calls followed by valid ones on the same object.
"""
from vlib.common import fp

LEVEL = "exploration"
INSITU_OWNED = ("insitu:aes",)
KEY_LENGTHS = (16, 24, 32)
ALIASES = ("AES-CBC", "aes-cbc", "AES_CBC", "aescbc", "AesCbc")


def plan(tier, seed):
    specs = []
    nkeys = 8 if tier == "quick" else 400
    for kl in KEY_LENGTHS:
        specs.append({"name": f"exh-k{kl}", "kind": "exh", "key_length": kl, "keys": nkeys, "max_len": 80})
    nr = 6 if tier == "quick" else 13
    for i in range(nr):
        specs.append({"name": f"rand{i}", "kind": "rand", "index": i, "cases": 8000 if tier == "quick" else 400000,
                      "budget_s": 60 if tier == "quick" else 420})
    specs.append({"name": "contracts", "kind": "contracts"})
    # one cipher object shared by four threads, each with its own key, a thread switch forced at every third statement
    specs.append({"name": "shared-by-threads", "kind": "threads", "primitive_monitors": False,
                  "rounds": 150 if tier == "quick" else 3000, "budget_s": 60 if tier == "quick" else 300})
    specs.append({"name": "hostile-callers", "kind": "hostile", "rounds": 300 if tier == "quick" else 6000,
                  "forks": 6 if tier == "quick" else 40})
    if tier == "thorough":
        specs.append({"name": "repo-tests", "kind": "repo_tests", "primitive_monitors": False})
    from vlib.common import both_interpreter_modes
    return both_interpreter_modes(specs)


def ref_encrypt(key, iv, message):
    from cryptography.hazmat.primitives.ciphers import Cipher, algorithms, modes
    pad = 16 - len(message) % 16
    padded = message + bytes([pad]) * pad
    enc = Cipher(algorithms.AES(key), modes.CBC(iv)).encryptor()
    return iv + enc.update(padded) + enc.finalize()


class Mon:
    def __init__(self, acc):
        self.acc = acc
        self.ivs = set()

    def one(self, ske, key, m, rng, other_key=None):
        acc = self.acc
        kl = len(key)
        mclass = "empty" if not m else ("aligned" if len(m) % 16 == 0 else "unaligned")
        case = {"key": key, "message": m} if len(m) <= 65536 else {"key": key, "message_length": len(m)}
        acc.count("enc.cases")
        acc.add("msg_lens", len(m))
        try:
            c1 = ske.Encrypt(key, m)
            c2 = ske.Encrypt(key, m)
        except Exception as e:
            acc.violation(f"aes:encrypt-raised:{mclass}", f"{type(e).__name__}: {e}", case)
            return
        want_len = 16 + 16 * (len(m) // 16 + 1)
        if len(c1) != want_len or len(c2) != want_len:
            acc.violation(f"aes:cipher-length:{mclass}", f"len(c)={len(c1)} expected {want_len}", case)
        if c1 == c2:
            acc.violation(f"aes:not-randomized:{mclass}", "two encryptions of (k, m) are equal", case)
        for c in (c1, c2):
            pair = (key, c[:16])
            if pair in self.ivs:
                acc.violation("aes:iv-reuse", "the same (key, IV) pair was used twice in this process", dict(case, iv=c[:16]))
            self.ivs.add(pair)
            acc.count("iv.checked")
        try:
            back = ske.Decrypt(key, c1)
        except Exception as e:
            back = e
        acc.count("dec.roundtrip")
        if back != m:
            acc.violation(f"aes:roundtrip:{mclass}", f"Decrypt(k, Encrypt(k, m)) = {back!r:.60}", case)
        # independent computation with the observed IV
        acc.count("ref.compared")
        if ref_encrypt(key, c1[:16], m) != c1:
            acc.violation(f"aes:differs-from-reference:{mclass}",
                          "ciphertext != IV || AES-CBC(PKCS7(m)) computed independently", case)
        # wrong key
        if other_key is None:
            other_key = bytes(rng.randrange(256) for _ in range(kl))
        if other_key != key:
            acc.count("dec.wrong_key")
            try:
                wrong = ske.Decrypt(other_key, c1)
                acc.count("dec.wrong_key.returned")
                if wrong == m:
                    acc.violation("aes:wrong-key-decrypts", "decryption under a different key returned the message",
                                  dict(case, other_key=other_key))
            except Exception:
                acc.count("dec.wrong_key.raised")


def expect_value_error(acc, name, fn):
    acc.count("contract." + name)
    try:
        r = fn()
    except ValueError:
        try:  # the same refused call once more
            r2 = fn()
            acc.violation("aes:contract:" + name + ":accepted-on-repeat", f"refused at first, accepted when repeated "
                                                                          f"(returned {r2!r:.60})", {"contract": name})
        except ValueError:
            pass
        except Exception:
            pass
        return
    except Exception as e:
        acc.violation("aes:contract:" + name, f"raised {type(e).__name__} instead of ValueError: {e}", {"contract": name})
        return
    acc.violation("aes:contract:" + name, f"accepted (returned {r!r:.60})", {"contract": name})


def run_shard(spec, acc, ctx):
    import toolkit.symmetric_encryption as se
    rng = ctx.rng
    mon = Mon(acc)
    kind = spec["kind"]
    if kind == "repo_tests":
        from vlib import repotests
        repotests.run(acc, ctx, ["test/test_sse_schemes/test_CJJ14_PiBas.py", "test/test_sse_schemes/test_CT14_Pi.py",
                                 "test/test_sse_schemes/test_CJJ14_PiPack.py"], ["insitu:aes"])
        return
    if kind == "threads":
        threads(acc, ctx, spec)
        return
    if kind == "hostile":
        hostile(acc, ctx, spec)
        acc.sample({"kind": "hostile callers", "rounds": spec["rounds"], "fork_pairs": spec["forks"]})
        return
    if kind == "exh":
        kl = spec["key_length"]
        cls = se.get_symmetric_encryption_implementation(rng.choice(ALIASES))
        ske = cls(key_length=kl)
        for ki in range(spec["keys"]):
            key = ske.KeyGen() if ki % 2 else rng.randbytes(kl)
            if len(key) != kl:
                acc.violation("aes:keygen-length", f"KeyGen returned {len(key)} bytes", {"key_length": kl})
            for n in range(spec["max_len"] + 1):
                m = rng.randbytes(n) if ki else bytes(n)
                mon.one(ske, key, m, rng)
                acc.count("cases")
                acc.add("distinct", fp(kl, ki, n))
        acc.add("exhaustive_key_lengths", kl)
        acc.sample({"kind": "exhaustive message lengths 0..%d" % spec["max_len"], "key_length": kl,
                    "keys": spec["keys"]})
    elif kind == "rand":
        cls = se.get_symmetric_encryption_implementation("AES-CBC")
        skes = {kl: cls(key_length=kl) for kl in KEY_LENGTHS}
        for i in range(spec["cases"]):
            if ctx.out_of_time():
                break
            kl = rng.choice(KEY_LENGTHS)
            n = rng.choice([rng.randint(0, 100), rng.randint(0, 4096), 16 * rng.randint(0, 64),
                            16 * rng.randint(1, 64) - 1, 16 * rng.randint(0, 64) + 1])
            key = rng.randbytes(kl)
            m = rng.randbytes(n)
            # related keys: one bit flipped
            ok = bytearray(key)
            ok[rng.randrange(kl)] ^= 1 << rng.randrange(8)
            mon.one(skes[kl], key, m, rng, other_key=bytes(ok) if rng.random() < 0.5 else None)
            acc.count("cases")
            acc.add("distinct", fp("r", spec["index"], i))
            if i == 0:
                acc.sample({"kind": "random", "key_length": kl, "message_length": n})
    elif kind == "contracts":
        cls = se.get_symmetric_encryption_implementation("AES-CBC")
        for alias in ALIASES:
            if se.get_symmetric_encryption_implementation(alias) is not cls:
                acc.violation("aes:alias", f"alias {alias} resolves to a different class", {"alias": alias})
        for bad in ("", "AES", "aes-ecb", "DES", "HmacPRF"):
            expect_value_error(acc, "unknown-name", lambda: se.get_symmetric_encryption_implementation(bad))
        for kl in (0, 1, 8, 15, 17, 20, 31, 33, 48, 64, -1):
            expect_value_error(acc, "bad-key-length", lambda: cls(key_length=kl))
        for cl in (1, 15, 17, 31, 47):
            expect_value_error(acc, "bad-cipher-length", lambda: cls(key_length=16, cipher_length=cl))
        # All declared-length objects are built FIRST and stay alive while each is used (in shuffled order), together
        # with objects that declare only one of the two lengths or none: a declaration belongs to its object.
        grid = [(kl, ml) for kl in KEY_LENGTHS
                for ml in (0, 1, 15, 16, 17, 32, 40, 239, 240, 255, 256, 257, 272, 1000, 4096, 65536, 65537)]
        live = {}
        for kl, ml in grid:
            cl = 16 + 16 * (ml // 16 + 1)
            try:
                live[(kl, ml)] = cls(key_length=kl, message_length=ml, cipher_length=cl)
            except Exception as e:
                acc.violation("aes:declared-lengths:constructor-raised",
                              f"the constructor refused the consistent declaration message_length={ml}, "
                              f"cipher_length={cl}: {type(e).__name__}: {e}", {"key_length": kl, "message_length": ml})
        unrestricted = {kl: cls(key_length=kl) for kl in KEY_LENGTHS}
        only_m, only_c = {}, {}
        for kl, ml in grid[::3]:
            try:
                only_m[(kl, ml)] = cls(key_length=kl, message_length=ml)
                only_c[(kl, ml)] = cls(key_length=kl, cipher_length=16 + 16 * (ml // 16 + 1))
            except Exception as e:
                acc.violation("aes:declared-lengths:constructor-raised",
                              f"the constructor refused message_length={ml} alone or its cipher length alone: "
                              f"{type(e).__name__}: {e}", {"key_length": kl, "message_length": ml})
        order = list(live)
        rng.shuffle(order)
        for kl, ml in order:
            for which, table in (("message_length only", only_m), ("cipher_length only", only_c)):
                o = table.get((kl, ml))
                if o is None:
                    continue
                acc.count("contract.one-sided-declaration")
                key, m = rng.randbytes(kl), rng.randbytes(ml)
                try:
                    if o.Decrypt(key, o.Encrypt(key, m)) != m:
                        acc.violation("aes:declared-lengths", f"an instance declared with {which} does not round-trip",
                                      {"key_length": kl, "message_length": ml})
                except Exception as e:
                    acc.violation("aes:declared-lengths:raised",
                                  f"an instance declared with {which} ({ml} / {16 + 16 * (ml // 16 + 1)}) refused its own "
                                  f"lengths: {type(e).__name__}: {e}", {"key_length": kl, "message_length": ml})
            u = unrestricted[kl]
            key = rng.randbytes(kl)
            for n in (0, 1, ml + 1):
                m = rng.randbytes(n)
                acc.count("contract.unrestricted-next-to-declared")
                try:
                    if u.Decrypt(key, u.Encrypt(key, m)) != m:
                        acc.violation("aes:roundtrip", "an instance without declared lengths does not round-trip", {})
                except Exception as e:
                    acc.violation("aes:undeclared-instance-refuses",
                                  f"an instance that declares no message / cipher length refused a {n}-byte message while "
                                  f"other instances with declared lengths are alive: {type(e).__name__}: {e}",
                                  {"key_length": kl, "message_length": n})
        for kl, ml in order:
            if True:
                cl = 16 + 16 * (ml // 16 + 1)
                ske = live[(kl, ml)]
                key = rng.randbytes(kl)
                m = rng.randbytes(ml)
                acc.count("contract.positive")
                try:
                    c = ske.Encrypt(key, m)
                    back = ske.Decrypt(key, c)
                except Exception as e:
                    acc.violation("aes:declared-lengths:raised",
                                  f"an instance declared with message_length={ml}, cipher_length={cl} refused inputs of "
                                  f"exactly those lengths: {type(e).__name__}: {e}", {"key_length": kl, "message_length": ml})
                    continue
                if len(c) != cl or back != m:
                    acc.violation("aes:declared-lengths", "declared-length instance does not round-trip",
                                  {"key_length": kl, "message_length": ml})
                for d in (-1, 1):
                    if ml + d >= 0:
                        expect_value_error(acc, "message-length", lambda: ske.Encrypt(key, rng.randbytes(ml + d)))
                    expect_value_error(acc, "cipher-length", lambda: ske.Decrypt(key, c + b"\x00" * 16 if d > 0 else c[:-16]))
                    expect_value_error(acc, "key-length-enc", lambda: ske.Encrypt(rng.randbytes(kl + d), m))
                    expect_value_error(acc, "key-length-dec", lambda: ske.Decrypt(rng.randbytes(kl + d), c))
                for okl in KEY_LENGTHS:
                    if okl != kl:
                        expect_value_error(acc, "key-length-enc", lambda: ske.Encrypt(rng.randbytes(okl), m))
                        expect_value_error(acc, "key-length-dec", lambda: ske.Decrypt(rng.randbytes(okl), c))
                acc.count("cases")
                acc.add("distinct", fp("c", kl, ml))
        # a key of another *valid* AES length must be refused by the length contract itself: a wrong-key
        # decryption also raises ValueError (bad padding) most of the time, but unpads by chance about once in
        # 256 tries, so many tries separate "refused by contract" from "tried and failed"
        for kl in KEY_LENGTHS:
            ske = cls(key_length=kl)
            key = rng.randbytes(kl)
            for t in range(1500):
                okl = KEY_LENGTHS[(KEY_LENGTHS.index(kl) + 1 + t % 2) % 3]
                c = ske.Encrypt(key, rng.randbytes(t % 40))
                expect_value_error(acc, "other-valid-key-length-dec", lambda: ske.Decrypt(rng.randbytes(okl), c))
        # many encryptions of ONE (key, message): all ciphertexts pairwise different (catches an IV source that
        # cycles or is re-seeded, which two consecutive calls cannot show)
        for kl in KEY_LENGTHS:
            ske = cls(key_length=kl)
            key, m = rng.randbytes(kl), rng.randbytes(rng.choice([0, 5, 16, 40]))
            n = 70000 if kl == 16 else 20000      # past 2^16 once: a counter-based IV source must not wrap
            seen = set()
            for _ in range(n):
                seen.add(ske.Encrypt(key, m))
            acc.count("repeat_encryptions", n)
            if len(seen) != n:
                acc.violation("aes:repeated-ciphertext", f"{n} encryptions of one (key, message) produced only "
                                                         f"{len(seen)} different ciphertexts", {"key": key, "message": m})
        # whole mebibytes and their neighbours (an implementation that works in pieces must still pad the last one)
        ske = cls(key_length=24)
        mon2 = Mon(acc)
        key = rng.randbytes(24)
        for mib in (1, 2, 3):
            for d in (-16, -1, 0, 1, 16):
                mon2.one(ske, key, rng.randbytes(mib * (1 << 20) + d), rng)
                acc.count("cases")
                acc.count("mebibyte_messages")
                acc.add("distinct", fp("mib", mib, d))
        # tampered / malformed ciphertexts are refused or at least never yield the message
        ske = cls(key_length=16)
        key = rng.randbytes(16)
        for n in (0, 5, 16, 33):
            m = rng.randbytes(n)
            c = ske.Encrypt(key, m)
            for cut in (c[:-1], c[:16], c[:15], b""):
                acc.count("contract.malformed")
                try:
                    r = ske.Decrypt(key, cut)
                    if r == m:
                        acc.violation("aes:malformed-decrypts", "a truncated ciphertext decrypted to the message", {})
                except Exception:
                    pass


def forked_ivs(ske, key, m, n):
    """Fork a child that encrypts (key, m) n times and reports the ciphertexts; None if the child failed."""
    import os
    r, w = os.pipe()
    pid = os.fork()
    if pid == 0:
        try:
            os.close(r)
            out = b"".join(ske.Encrypt(key, m) for _ in range(n))
            os.write(w, len(out).to_bytes(4, "big") + out)
        finally:
            os._exit(0)
    os.close(w)
    data = b""
    while True:
        chunk = os.read(r, 1 << 16)
        if not chunk:
            break
        data += chunk
    os.close(r)
    os.waitpid(pid, 0)
    if len(data) < 4 or int.from_bytes(data[:4], "big") != len(data) - 4:
        return None
    body = data[4:]
    cl = len(body) // n
    return [body[i * cl:(i + 1) * cl] for i in range(n)]


def hostile(acc, ctx, spec):
    """Callers that are legitimate but unkind: caller-owned mutable buffers that are reused, a host program that
    re-seeds the global `random` generator, worker processes forked after the first encryption, a refused call
    followed by normal ones on the same object."""
    import random as global_random
    import toolkit.symmetric_encryption as se
    rng = ctx.rng
    cls = se.get_symmetric_encryption_implementation("AES-CBC")
    for rnd in range(spec["rounds"]):
        if ctx.out_of_time():
            break
        kl = rng.choice(KEY_LENGTHS)
        ske = cls(key_length=kl)
        key = rng.randbytes(kl)
        m = rng.randbytes(rng.choice([0, 1, 15, 16, 17, 32, rng.randint(0, 200)]))
        case = {"key": key, "message": m, "hostile": True}
        acc.count("cases")
        acc.add("distinct", fp("h", rnd))
        # ---- (a) caller-owned bytearrays (refusing the type is fine; a changed buffer or a wrong answer is not)
        acc.count("hostile.bytearray")
        buf = bytearray(m)
        try:
            c = ske.Encrypt(key, buf)
            if bytes(buf) != m:
                acc.violation("aes:caller-buffer-mutated:message",
                              f"Encrypt changed the caller's bytearray message ({len(m)} -> {len(buf)} bytes)", case)
                continue
            c_again = ske.Encrypt(key, buf)
            if len(c_again) != len(c) or ske.Decrypt(key, c) != m or ske.Decrypt(key, c_again) != m:
                acc.violation("aes:bytearray-message", "a bytearray message does not round-trip", case)
                continue
            cb = bytearray(c)
            if ske.Decrypt(key, cb) != m or bytes(cb) != c:
                acc.violation("aes:caller-buffer-mutated:ciphertext", "Decrypt of a bytearray ciphertext is wrong or "
                                                                      "changed the buffer", case)
                continue
        except (TypeError, ValueError):
            acc.count("hostile.bytearray_refused")
        # one key buffer, overwritten in place between keys: no call may keep using the previous content
        key2 = rng.randbytes(kl)
        kbuf = bytearray(key)
        try:
            c1 = ske.Encrypt(kbuf, m)
            kbuf[:] = key2
            c2 = ske.Encrypt(kbuf, m)
            if bytes(kbuf) != key2:
                acc.violation("aes:caller-buffer-mutated:key", "Encrypt changed the caller's key buffer", case)
                continue
            if ske.Decrypt(key, c1) != m or ske.Decrypt(key2, c2) != m:
                acc.violation("aes:reused-key-buffer", "with one key buffer overwritten in place between two keys, a "
                                                       "ciphertext does not decrypt under the key the buffer held", case)
                continue
            kbuf[:] = key
            if ske.Decrypt(kbuf, c1) != m:
                acc.violation("aes:reused-key-buffer", "Decrypt with a reused key buffer is wrong", case)
                continue
        except (TypeError, ValueError):
            acc.count("hostile.bytearray_refused")
        # ---- (b) the host re-seeds / restores the global generator between two encryptions
        acc.count("hostile.reseed")
        seed = rng.getrandbits(32)
        global_random.seed(seed)
        st = global_random.getstate()
        ca = ske.Encrypt(key, m)
        global_random.seed(seed)
        cb_ = ske.Encrypt(key, m)
        global_random.setstate(st)
        cc = ske.Encrypt(key, m)
        if len({ca, cb_, cc}) != 3:
            acc.violation("aes:not-randomized:after-reseed",
                          "two encryptions of (k, m) are equal when the host program re-seeds (or restores the state "
                          "of) the global random generator in between", case)
            continue
        # ---- (b2) the same (key, message) encrypted in other threads (one after the other), and after idle time
        if rnd % 10 == 0:
            import threading
            from vlib import instrument
            acc.count("hostile.other_threads_and_idle_time")
            outs = [ske.Encrypt(key, m) for _ in range(3)]

            def in_thread():
                outs.extend(ske.Encrypt(key, m) for _ in range(3))
            for _ in range(3):
                t = threading.Thread(target=in_thread)
                t.start()
                t.join(20)
            with instrument.ClockOffset() as clk:
                for pause in (11, 61, 3601, 86401):
                    clk.advance(pause)
                    outs.extend(ske.Encrypt(key, m) for _ in range(3))
            if len(set(outs)) != len(outs):
                acc.violation("aes:not-randomized:threads-or-idle-time",
                              f"{len(outs) - len(set(outs))} of {len(outs)} encryptions of one (key, message) coincide when "
                              f"some are made in other threads (one after the other) and some after pauses of 11 s to "
                              f"a day (process clocks pushed forward)", case)
                continue
        # ---- (c) a refused call, then normal calls on the same object
        acc.count("hostile.after_refusal")
        c0 = ske.Encrypt(key, m)
        for bad in (lambda: ske.Encrypt(rng.randbytes(kl + 1), m), lambda: ske.Decrypt(rng.randbytes(kl - 1), c0),
                    lambda: ske.Decrypt(key, c0[:-3]), lambda: ske.Encrypt(key, None), lambda: ske.Decrypt(None, c0)):
            try:
                bad()
            except Exception:
                pass
            try:
                ok = ske.Decrypt(key, c0) == m and ske.Decrypt(key, ske.Encrypt(key, m)) == m
            except Exception as e:
                ok = False
            if not ok:
                acc.violation("aes:wrong-after-refused-call", "after a refused call the same object no longer "
                                                              "round-trips valid inputs", case)
                break
    # ---- (d) workers forked after the parent has already encrypted
    for f in range(spec["forks"]):
        kl = KEY_LENGTHS[f % 3]
        ske = cls(key_length=kl)
        key, m = rng.randbytes(kl), rng.randbytes(rng.choice([0, 8, 16, 40]))
        warm = [ske.Encrypt(key, m) for _ in range(1 + f % 3)]
        a = forked_ivs(ske, key, m, 64)
        b = forked_ivs(ske, key, m, 64)
        after = [ske.Encrypt(key, m) for _ in range(64)]
        acc.count("hostile.fork_pairs")
        acc.count("cases")
        acc.add("distinct", fp("f", f))
        if a is None or b is None:
            acc.note("a forked child did not report")
            acc.count("hostile.fork_failed")
            continue
        allc = warm + a + b + after
        if len(set(allc)) != len(allc):
            acc.violation("aes:not-randomized:across-fork",
                          f"{len(allc) - len(set(allc))} of {len(allc)} ciphertexts of one (key, message) coincide "
                          f"between the parent and / or two worker processes forked after the parent's first encryption",
                          {"key": key, "message": m, "hostile": True})
            break
        if any(ske.Decrypt(key, x) != m for x in a[:4] + b[:4]):
            acc.violation("aes:roundtrip:forked", "a ciphertext produced in a forked worker does not decrypt", {})
            break
    # ---- (d2) a fresh cipher object per encryption (an application that constructs its cipher per call), messages up
    # to and past 4 KiB / 64 KiB: the first encryption of every object is as random as any other
    for kl in KEY_LENGTHS:
        key = rng.randbytes(kl)
        for n in (0, 15, 16, 1000, 4079, 4080, 4095, 4096, 4097, 8192, 65520, 65536, 70001):
            m = rng.randbytes(n)
            cts = [cls(key_length=kl).Encrypt(key, m) for _ in range(4)]
            acc.count("hostile.fresh_object_encryptions", 4)
            acc.count("cases")
            if len(set(cts)) != 4 or len({c[:16] for c in cts}) != 4:
                acc.violation("aes:not-randomized:first-encryption-of-fresh-objects",
                              f"four fresh cipher objects encrypted one ({kl}-byte key, {n}-byte message) pair: "
                              f"{4 - len({c[:16] for c in cts})} initialisation vectors coincide",
                              {"key": key, "message_length": n, "hostile": True})
                break
            if any(cls(key_length=kl).Decrypt(key, c) != m for c in cts[:2]):
                acc.violation("aes:roundtrip:fresh-objects", f"a fresh object cannot decrypt a {n}-byte message of "
                                                             f"another fresh object", {"hostile": True})
                break
    # ---- (d3) the cipher object is COPIED by the caller (copy.copy, copy.deepcopy, a pickle round trip - what handing
    # it to a worker process does) after it has been used: original and copies go on encrypting the same (key, message)
    import copy as _copy
    import pickle as _pickle
    for kl in KEY_LENGTHS:
        base = cls(key_length=kl)
        key, m = rng.randbytes(kl), rng.randbytes(rng.choice([0, 8, 16, 40]))
        warm = [base.Encrypt(key, m) for _ in range(3)]
        clones = {"copy.copy": None, "copy.deepcopy": None, "pickle": None}
        for how in list(clones):
            try:
                clones[how] = {"copy.copy": _copy.copy, "copy.deepcopy": _copy.deepcopy,
                               "pickle": lambda o: _pickle.loads(_pickle.dumps(o))}[how](base)
            except Exception:
                acc.count("hostile.copy_refused." + how)        # an object may refuse to be copied
                del clones[how]
        outs = list(warm)
        for r in range(40):
            outs.append(base.Encrypt(key, m))
            for how, c in clones.items():
                outs.append(c.Encrypt(key, m))
        acc.count("hostile.copied_objects", len(clones))
        acc.count("cases")
        if len(set(outs)) != len(outs):
            acc.violation("aes:not-randomized:original-and-copies",
                          f"{len(outs) - len(set(outs))} of {len(outs)} ciphertexts of one (key, message) coincide between a "
                          f"cipher object and its copies ({', '.join(clones)})", {"key": key, "message": m, "hostile": True})
            break
        if any(base.Decrypt(key, x) != m for x in outs[-6:]):
            acc.violation("aes:roundtrip:copies", "a ciphertext made by a copy of the cipher object does not decrypt", {})
            break
    # ---- (e) twin interpreters: two fresh processes that agree on the wall-clock second, pid, hash seed, environment
    from vlib import twin
    for f in range(spec.get("twins", 2)):
        kl = KEY_LENGTHS[f % 3]
        key, m = rng.randbytes(kl), rng.randbytes(rng.choice([0, 8, 16, 40]))
        a, b = twin.run_pair({"kind": "c14", "key": key, "message": m, "n": 32}, ctx.scratch)
        if a is None or b is None:
            acc.count("hostile.twin_failed")
            acc.note("a twin interpreter did not report")
            continue
        acc.count("hostile.twin_pairs")
        acc.count("cases")
        if len(set(a + b)) != len(a) + len(b):
            acc.violation("aes:not-randomized:across-twin-interpreters",
                          f"{len(a) + len(b) - len(set(a + b))} of {len(a) + len(b)} ciphertexts of one (key, message) "
                          f"coincide between two fresh interpreters that were started in the same second with the same "
                          f"process id and hash seed", {"key": key, "message": m, "hostile": True})
            break
        ske = cls(key_length=kl)
        if any(ske.Decrypt(key, x) != m for x in a[:2] + b[:2]):
            acc.violation("aes:roundtrip:twin", "a ciphertext produced in a twin interpreter does not decrypt", {})
            break


def threads(acc, ctx, spec):
    """The cipher object holds no per-call state, so four threads may share it: every thread round-trips its own
    messages under its own key and recomputes each ciphertext independently from the IV it observes."""
    import os
    import threading
    import toolkit.symmetric_encryption as se
    from vlib import instrument
    rng = ctx.rng
    cls = se.get_symmetric_encryption_implementation("AES-CBC")
    repo = os.environ.get("VERIF_REPO", "/repo")
    for kl in KEY_LENGTHS:
        ske = cls(key_length=kl)
        keys = [rng.randbytes(kl) for _ in range(4)]
        msgs = [[rng.randbytes(rng.choice([0, 5, 16, 31, 64])) for _ in range(8)] for _ in range(4)]
        bad = []
        done = [0] * 4
        stop = threading.Event()

        def worker(i):
            def go():
                for r in range(spec["rounds"]):
                    if stop.is_set() or ctx.out_of_time():
                        return
                    m = msgs[i][r % 8]
                    try:
                        c = ske.Encrypt(keys[i], m)
                        back = ske.Decrypt(keys[i], c)
                    except Exception as e:
                        back, c = e, b""
                    if back != m or (c and ref_encrypt(keys[i], c[:16], m) != c):
                        bad.append((i, r, repr(back)[:60]))
                        stop.set()
                        return
                    done[i] += 1
            return go
        with instrument.YieldInjector(repo) as yi:
            errs = instrument.run_threads([worker(i) for i in range(4)])
        acc.count("threads.round_trips", sum(done))
        acc.count("threads.forced_switch_points", yi.yields)
        acc.count("cases")
        acc.add("distinct", fp("threads", kl))
        if any(isinstance(e, TimeoutError) for e in errs):
            acc.count("threads.watchdog")
            acc.note("thread workload hit its watchdog")
        if bad:
            i, r, what = bad[0]
            acc.violation("aes:wrong-when-shared-by-threads",
                          f"four threads share one cipher object, each with its own key: thread {i}'s round trip #{r} "
                          f"gave {what} (its ciphertext is not AES-CBC of its message under its key)",
                          {"key_length": kl, "threads": True})
            return


def replay(case, acc, ctx):
    import toolkit.symmetric_encryption as se
    if case.get("threads"):
        threads(acc, ctx, {"rounds": 300})
        acc.count("replayed")
        return
    if case.get("hostile"):
        hostile(acc, ctx, {"rounds": 300, "forks": 6})
        acc.count("replayed")
        return
    if "key" in case and ("message" in case or "message_length" in case):
        key, m = case["key"], case.get("message", bytes(case.get("message_length", 0)))
        ske = se.get_symmetric_encryption_implementation("AES-CBC")(key_length=len(key))
        Mon(acc).one(ske, key, m, ctx.rng)


def finish(m, tier, seed):
    c = m["counters"]
    inc = []
    if c.get("enc.cases", 0) < 1000:
        inc.append(f"only {c.get('enc.cases', 0)} encryptions monitored")
    if len(m["sets"].get("exhaustive_key_lengths", [])) < 3:
        inc.append("exhaustive 0..80 sweep missing for a key length")
    if c.get("contract.message-length", 0) < 10 or c.get("contract.key-length-enc", 0) < 10:
        inc.append("length contracts not exercised")
    if c.get("threads.round_trips", 0) < 300 or c.get("threads.forced_switch_points", 0) < 1000:
        inc.append("the shared-by-threads workload observed too little")
    if c.get("hostile.twin_pairs", 0) < 1:
        inc.append("no pair of twin interpreters reported")
    if c.get("hostile.fork_pairs", 0) < 3 or c.get("hostile.reseed", 0) < 100:
        inc.append("hostile-caller workloads (fork, re-seed, reused buffers) did not run")
    if "toolkit/symmetric_encryption/aes.py:AESxCBC.Encrypt" not in m["sets"].get("functions_entered", []):
        inc.append("AESxCBC.Encrypt never entered")
    lens = sorted(int(x) for x in m["sets"].get("msg_lens", []))
    cov = {
        "evaluations": c.get("cases", 0),
        "distinct_nontrivial": len(m["sets"].get("distinct", [])),
        "rule": "case = (key, message): two encryptions, one decryption, one wrong-key decryption, one independent "
                "recomputation; message lengths 0..80 exhaustively for each key length and several keys, then random "
                "lengths to 4096 biased to block boundaries; contract shard: every declared length off by +-1. All "
                "cases evaluate the oracle (non-trivial); distinct = distinct generator coordinates.",
        "exhaustive": False,
        "message_lengths_seen": [lens[0], lens[-1], len(lens)] if lens else [],
        "key_iv_pairs_checked": c.get("iv.checked", 0),
        "encryptions_of_one_key_message_pair": c.get("repeat_encryptions", 0),
        "wrong_key": {"raised": c.get("dec.wrong_key.raised", 0), "returned_other": c.get("dec.wrong_key.returned", 0)},
        "contract_checks": {k[9:]: v for k, v in c.items() if k.startswith("contract.")},
        "hostile_callers": {k[8:]: v for k, v in c.items() if k.startswith("hostile.")},
        "one_object_shared_by_four_threads": {k[8:]: v for k, v in c.items() if k.startswith("threads.")},
        "insitu_contract_evaluations": {k: v for k, v in c.items() if k.startswith("insitu.")},
        "repository_tests_under_monitors": {k: v for k, v in c.items() if k.startswith("repo_tests.")},
    }
    return {"coverage": cov, "inconclusive": inc,
            "assumptions": ["the `cryptography` wheel's AES-CBC primitive is the trusted reference cipher",
                            "IV uniqueness is checked per worker process"]}
