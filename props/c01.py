"""C01 - search returns exactly the posting list of every stored keyword (all nine schemes).

Monitor shape: shadow-copy oracle. The plaintext database is deep-copied before EDBSetup and every search result
is compared with it (list equality; set equality for DP17). An exception in Config/KeyGen/EDBSetup/TokenGen/Search
on a valid input is a refutation too (the property promises a result).
"""
from props import _search_engine as eng
from vlib import sse

LEVEL = "exploration"
SHARD_TIMEOUT = {"quick": 240, "thorough": 1500}


def plan(tier, seed):
    return sse.scheme_shards(tier, per_scheme_quick=2, per_scheme_thorough=4, budget_quick=14, budget_thorough=420)


def run_shard(spec, acc, ctx):
    eng.run(spec, acc, ctx, "present")


def replay(case, acc, ctx):
    scheme, cfg, db = case["scheme"], case["cfg"], case["db"]
    import copy
    shadow = copy.deepcopy(db)
    st = sse.Setup(scheme, cfg, db)
    acc.count("replayed")
    if st.error is not None:
        acc.violation(sse.setup_signature(scheme, st), f"{st.phase} raised {type(st.error).__name__}: {st.error}", case)
        return
    for w in ([case["keyword"]] if "keyword" in case else list(shadow)):
        try:
            got = st.search(w)
        except Exception as e:
            acc.violation("replay:search-raised", f"{type(e).__name__}: {e}", case)
            continue
        if not sse.result_matches(scheme, got, shadow[w]):
            acc.violation("replay:wrong-result", sse.diff_kind(scheme, got, shadow[w]), case)


def finish(m, tier, seed):
    cov, inc = eng.finish(m, tier, "present", 50)
    return {"coverage": cov, "inconclusive": inc,
            "assumptions": ["databases are valid by the definition in the property and generated for the configuration",
                            "keys come from the schemes' own KeyGen (os.urandom); at most 40 keywords searched per database"]}
