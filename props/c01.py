"""C01 - search returns exactly the posting list of every stored keyword (all nine schemes).

Monitor shape: shadow-copy oracle. The plaintext database is deep-copied before EDBSetup and every search result
is compared with it (list equality; set equality for DP17). An exception in Config/KeyGen/EDBSetup/TokenGen/Search
on a valid input is a refutation too (the property promises a result).
"""
from props import _search_engine as eng
from vlib import sse

LEVEL = "exploration"
SHARD_TIMEOUT = {"quick": 240, "thorough": 1500}


def plan(tier, seed):
    specs = sse.scheme_shards(tier, per_scheme_quick=2, per_scheme_thorough=3, budget_quick=14, budget_thorough=270)
    # default-size configurations that the small grid never reaches: Pi2Lev's large case with B=b=B'=b'=64 needs a
    # list of more than 4096 postings; SSE-1 with its default 2^16 array; a DP17 / CT14 / ANSS16 database of a few
    # thousand postings (many levels)
    specs.append({"name": "big-defaults", "kind": "big", "budget_s": 120 if tier == "quick" else 900,
                  "rounds": 1 if tier == "quick" else 6})
    # every capacity / width parameter LARGER than its default, with a database that the default configuration could not
    # hold (a constant read from the module defaults instead of the configuration object shows only here)
    for j in range(3):
        specs.append({"name": f"beyond-defaults-{j}", "kind": "big", "beyond": j, "rounds": 0, "budget_s": 200})
    from vlib import gen as _g
    for j, sch_ in enumerate(_g.SCHEMES):
        specs.append({"name": f"searched-from-threads-{_g.SHORT[sch_]}", "kind": "threads", "schemes": [sch_],
                      "primitive_monitors": False, "rounds": 1 if tier == "quick" else 12, "seconds_per_scheme": 9,
                      "budget_s": 300})
    for j in range(3):
        specs.append({"name": f"interrupted-and-repeated-{j}", "kind": "interrupted", "schemes": _g.SCHEMES[j::3],
                      "primitive_monitors": False, "rounds": 1 if tier == "quick" else 6, "budget_s": 150})
    for j in range(3):
        specs.append({"name": f"dropped-index-generations-{j}", "kind": "generations", "schemes": _g.SCHEMES[j::3],
                      "rounds": 1 if tier == "quick" else 8, "generations": 120, "budget_s": 120})
    for j in range(2 if tier == "quick" else 4):
        specs.append({"name": f"long-keywords-{j}", "kind": "long_keywords", "index": j * 4,
                      "budget_s": 12 if tier == "quick" else 200})
        specs.append({"name": f"feedback-keywords-{j}", "kind": "feedback", "index": j * 4,
                      "budget_s": 12 if tier == "quick" else 200})
        specs.append({"name": f"steered-values-{j}", "kind": "steered", "index": j * 3,
                      "budget_s": 14 if tier == "quick" else 240})
    from vlib import gen as _gen
    for sch in _gen.SCHEMES:
        specs.append({"name": f"many-keywords-{_gen.SHORT[sch]}", "kind": "big", "many_schemes": [sch], "rounds": 0,
                      "budget_s": 150})
    return specs


def run_big(spec, acc, ctx):
    import copy
    from vlib import gen
    rng = ctx.rng
    plans = []
    for _ in range(spec["rounds"]):
        plans += [("CJJ14.Pi2Lev", {}, [4097, 4096, 65, 64, 1]), ("CJJ14.Pi2Lev", {}, [rng.randint(4098, 9000), 3]),
                  ("CGKO06.SSE1", {}, [rng.randint(1, 30) for _ in range(6)]),
                  ("DP17.Pi", {"param_L": rng.choice([1, 2, 4])}, [2048, 1000, 513, 64, 7, 1, 1]),
                  ("CT14.Pi", {}, [1024, 1023, 700, 31, 1]), ("ANSS16.Scheme3", {}, [2049, 1024, 255, 16, 3]),
                  ("CJJ14.PiPtr", {}, [64 * 64 + 1, 4096, 63]), ("CJJ14.PiPack", {}, [64 * 40 + 1, 64, 65]),
                  ("CJJ14.PiBas", {"param_lambda": 16, "prf_f_output_length": 16}, [3000, 1]),
                  # a posting list longer than 2^16: the per-posting counter needs a third byte
                  ("CJJ14.PiBas", {}, [65600, 2]), ("CJJ14.PiPack", {"param_B": 1}, [65540, 1])]
    # more distinct keywords than any per-object memory holds (1200 keywords, lists of 1-2 postings over a small pool
    # of files), every one searched, then every one searched AGAIN in the same order and a third time shuffled
    for scheme in spec.get("many_schemes", []):
        if ctx.out_of_time():
            break
        cfg = gen.default_config(scheme)
        if scheme == "CGKO06.SSE1":
            cfg.update(param_dictionary_size=2048)
        nk = 1100 if scheme in ("CGKO06.SSE1", "CGKO06.SSE2") else 1200
        try:
            db, info = gen.db_from_lens(rng, scheme, cfg, [1 + (j % 2) for j in range(nk)], "many-keywords", kw_min=3)
        except ValueError as e:
            acc.note(f"many-keywords {scheme}: {e}")
            continue
        shadow = copy.deepcopy(db)
        st = sse.Setup(scheme, cfg, db)
        short = gen.SHORT[scheme]
        acc.count("cases")
        acc.count("many_keyword_cases")
        if st.error is not None:
            acc.violation(sse.setup_signature(scheme, st), f"{scheme} {st.phase} raised {type(st.error).__name__}: "
                          f"{st.error} on a database of {nk} keywords", {"scheme": scheme, "cfg": cfg, "keywords": nk})
            continue
        words = list(shadow)
        ok = True
        passes = (words, words) if scheme in ("CGKO06.SSE1", "CGKO06.SSE2") else (words, words, rng.sample(words, len(words)))
        for npass, order in enumerate(passes):
            for w in order:
                acc.count("searches.present")
                acc.count(f"searches.present.{short}")
                try:
                    got = st.search(w)
                except Exception as e:
                    acc.violation(f"{short}:search-raised:many-keywords", f"{type(e).__name__}: {e} (pass {npass + 1} over "
                                  f"{nk} distinct keywords on one scheme object)", {"scheme": scheme, "cfg": cfg})
                    ok = False
                    break
                if not sse.result_matches(scheme, got, shadow[w]):
                    acc.violation(f"{short}:wrong-result:many-keywords",
                                  f"{scheme}: pass {npass + 1} over {nk} distinct keywords on one scheme object: a stored "
                                  f"keyword's result has {len(got)} ids, expected {len(shadow[w])}",
                                  {"scheme": scheme, "cfg": cfg, "pass": npass + 1})
                    ok = False
                    break
            if not ok:
                break
        if ok:
            acc.add("distinct", sse.case_fp(scheme, "many-keywords", {b"n": [bytes([1])]}))
            acc.add("many_keyword_schemes", scheme)
    if spec.get("many_schemes"):
        return
    if "beyond" in spec:
        B = [[("CGKO06.SSE1", {"param_s": 2 ** 17}, [65537 + rng.randrange(40), 2, 1])],
             [("CJJ14.PiPtr", {"param_B": 128, "param_b": 128, "param_identifier_size": 16}, [128 * 128 + 1, 129, 128]),
              ("CJJ14.Pi2Lev", {"param_B": 128, "param_b": 128, "param_B_prime": 128, "param_b_prime": 128},
               [128 * 128 + 1 + rng.randrange(50), 128 * 128, 129, 128, 1]),
              ("CJJ14.PiPack", {"param_B": 200, "param_identifier_size": 32}, [200 * 3 + 1, 200, 201]),
              ("CGKO06.SSE2", {"param_l": 40, "param_dictionary_size": 2 ** 17, "param_max_file_size": 2 ** 21,
                               "param_identifier_size": 16}, [5, 3, 1])],
             [("CT14.Pi", {"param_k": 48, "param_l": 48, "param_identifier_size": 16}, [2049, 300, 17, 1]),
              ("ANSS16.Scheme3", {"param_lambda": 48, "param_l": 48, "param_l_prime": 48, "param_identifier_size": 16},
               [1025, 1024, 33, 1]),
              ("DP17.Pi", {"param_L": 4, "param_identifier_size": 16}, [4097, 1000, 65, 3, 1]),
              ("CGKO06.SSE1", {"param_k": 32, "param_l": 40, "param_s": 2 ** 17, "param_identifier_size": 16,
                               "param_dictionary_size": 2 ** 17}, [300, 40, 1])]]
        # (PiBas has no parameter that can exceed its default: lambda is the AES key length)
        plans = B[spec["beyond"]]
    for scheme, over, lens in plans:
        if ctx.out_of_time():
            break
        cfg = gen.default_config(scheme)
        cfg.update(over)
        if cfg.get("param_identifier_size", 8) < 3:
            cfg["param_identifier_size"] = 4
        db, info = gen.db_from_lens(rng, scheme, cfg, lens, "big-defaults")
        shadow = copy.deepcopy(db)
        st = sse.Setup(scheme, cfg, db)
        short = gen.SHORT[scheme]
        acc.count("cases")
        acc.count("beyond_default_cases" if "beyond" in spec else "big_default_cases")
        for c in info.get("pi2lev_cases", []):
            acc.add("pi2lev_cases", c)
        if st.error is not None:
            acc.violation(sse.setup_signature(scheme, st), f"{scheme} {st.phase} raised {type(st.error).__name__}: "
                          f"{st.error} on a default-size database (list lengths {lens})",
                          {"scheme": scheme, "cfg": cfg, "lens": lens})
            continue
        for w in shadow:
            acc.count("searches.present")
            acc.count(f"searches.present.{short}")
            try:
                got = st.search(w)
            except Exception as e:
                acc.violation(f"{short}:search-raised:big", f"{type(e).__name__}: {e} (list lengths {lens})",
                              {"scheme": scheme, "cfg": cfg, "lens": lens})
                continue
            acc.count("postings_compared", len(shadow[w]))
            if not sse.result_matches(scheme, got, shadow[w]):
                acc.violation(f"{short}:wrong-result:{sse.diff_kind(scheme, got, shadow[w])}",
                              f"{scheme} default-size database (list lengths {lens}): result of a list of "
                              f"{len(shadow[w])} differs", {"scheme": scheme, "cfg": cfg, "lens": lens})
        acc.add("distinct", sse.case_fp(scheme, "big", shadow))
        acc.add("beyond_schemes" if "beyond" in spec else "big_schemes", scheme)


def run_shard(spec, acc, ctx):
    if spec.get("kind") == "big":
        run_big(spec, acc, ctx)
    elif spec.get("kind") == "steered":
        eng.run_steered(spec, acc, ctx, "present")
    elif spec.get("kind") == "feedback":
        eng.run_feedback(spec, acc, ctx, "present")
    elif spec.get("kind") == "generations":
        eng.run_generations(spec, acc, ctx, "present")
    elif spec.get("kind") == "interrupted":
        eng.run_interrupted(spec, acc, ctx, "present")
    elif spec.get("kind") == "long_keywords":
        eng.run_long_keywords(spec, acc, ctx, "present")
    elif spec.get("kind") == "threads":
        eng.run_threads(spec, acc, ctx, "present")
    else:
        eng.run(spec, acc, ctx, "present")


def replay(case, acc, ctx):
    if case.get("interrupted"):
        acc.count("replayed")
        return eng.run_interrupted({"schemes": [case["scheme"]], "rounds": 2}, acc, ctx, "present")
    if case.get("generations"):
        acc.count("replayed")
        return eng.run_generations({"schemes": [case["scheme"]], "rounds": 3, "generations": 80}, acc, ctx, "present")
    if case.get("threads"):
        acc.count("replayed")
        return eng.run_threads({"schemes": [case["scheme"]], "rounds": 3, "seconds_per_scheme": 9}, acc, ctx, "present")
    if case.get("steered"):
        return eng.replay_steered(case, acc, ctx, "present")
    if "db" not in case and "lens" in case:
        from vlib import gen
        case = dict(case)
        case["db"], _ = gen.db_from_lens(ctx.rng, case["scheme"], case["cfg"], case["lens"], "big-defaults")
    elif "db" not in case:
        acc.note("this witness is a whole workload (many keywords on one object); re-run ./check C01 quick")
        return
    scheme, cfg, db = case["scheme"], case["cfg"], case["db"]
    import copy
    shadow = copy.deepcopy(db)
    st = sse.Setup(scheme, cfg, db)
    acc.count("replayed")
    if st.error is not None:
        acc.violation(sse.setup_signature(scheme, st), f"{st.phase} raised {type(st.error).__name__}: {st.error}", case)
        return
    for w in ([case["keyword"]] if "keyword" in case else list(shadow)):
        try:
            got = st.search(w)
        except Exception as e:
            acc.violation("replay:search-raised", f"{type(e).__name__}: {e}", case)
            continue
        if not sse.result_matches(scheme, got, shadow[w]):
            acc.violation("replay:wrong-result", sse.diff_kind(scheme, got, shadow[w]), case)


def finish(m, tier, seed):
    cov, inc = eng.finish(m, tier, "present", 50)
    cov["default_size_cases"] = m["counters"].get("big_default_cases", 0)
    cov["databases_of_1200_keywords_searched_three_times"] = m["counters"].get("many_keyword_cases", 0)
    cov["beyond_default_cases"] = m["counters"].get("beyond_default_cases", 0)
    if len(m["sets"].get("beyond_schemes", [])) < 8:
        inc.append("the beyond-defaults workloads did not cover eight schemes: "
                   + str(sorted(m["sets"].get("beyond_schemes", []))))
    if len(m["sets"].get("big_schemes", [])) < 8:
        inc.append("default-size workloads did not cover the schemes")
    return {"coverage": cov, "inconclusive": inc,
            "assumptions": ["databases are valid by the definition in the property and generated for the configuration",
                            "keys come from the schemes' own KeyGen (os.urandom); at most 40 keywords searched per database"]}
