"""C04 - the stored index and the tokens never expose keywords or identifiers; encryption is randomized.

Monitor shape: (a) substring scan of EDB.serialize() and of every Token.serialize() for every stored keyword
(>= 8 random bytes) and - except SSE-2 - every stored identifier (8 or 16 random bytes); (b) pairwise distinctness
of all ciphertext-bearing entries of one index (split into single-ciphertext units where a scheme concatenates
ciphertexts), on databases that repeat one identifier under every keyword; (c) disjointness of the ciphertext
entries of two indexes built from the same (key, database) - also when the host re-seeds the global `random`
generator with one value before each build, and when the builds happen in two workers forked after a first build.
False-alarm bound for (a): index <= 2e5 bytes, <= 400 strings of >= 8 random bytes: <= 2e5*400*2^-64 < 1e-11 per case.
"""
import copy
import hashlib
import os
import random as global_random

from vlib import gen, sse
from vlib.common import exc_site

LEVEL = "exploration"
INSITU_OWNED = ("insitu:aes-iv-reuse",)
SHARD_TIMEOUT = {"quick": 240, "thorough": 1500}


def plan(tier, seed):
    return sse.scheme_shards(tier, per_scheme_quick=2, per_scheme_thorough=3, budget_quick=12, budget_thorough=220)


def cipher_units(scheme, sch, edb):
    """List of single-ciphertext byte strings stored in the index (fillers included: they are random)."""
    cfg = sch.config
    out = []

    def unit_len(ske, key_len, msg_len):
        return len(ske.Encrypt(b"\x00" * key_len, b"\x00" * msg_len))

    def split(b, n):
        return [b[i:i + n] for i in range(0, len(b), n)]

    if scheme in ("CJJ14.PiBas", "CJJ14.PiPack"):
        out += list(edb.D.values())
    elif scheme in ("CJJ14.PiPtr", "CJJ14.Pi2Lev"):
        out += list(edb.D.values())
        out += [x for x in edb.A if x is not None]
    elif scheme == "CGKO06.SSE1":
        out += list(edb.A)
        out += list(edb.T.values())
    elif scheme == "CT14.Pi":
        u = unit_len(cfg.ske, cfg.param_k_prime, cfg.param_identifier_size)
        for ht in edb.HT_list:
            for v in ht.values():
                out += split(v, u)
    elif scheme == "ANSS16.Scheme3":
        u = unit_len(cfg.ske, cfg.param_k, cfg.param_identifier_size)
        out += list(edb.HT_S.values())
        for ht in edb.HT_L_list:
            for v in ht.values():
                out += split(v, u)
    elif scheme == "DP17.Pi":
        for buckets in edb.A_dict.values():
            for b in buckets:
                out += split(b, cfg.param_identifier_cipher_len)
    return out


def spellings(b):
    """Other spellings under which a byte string can sit in a serialized object without being found by a plain
    substring search: hexadecimal, base64, reversed, escaped as in repr(), the decimal / hexadecimal numeral of its
    big-endian value, UTF-16.  (8-16 random bytes: chance matches are out of the question for every one of them.)"""
    import base64
    out = {"hex": b.hex().encode(), "HEX": b.hex().upper().encode(), "base64": base64.b64encode(b).rstrip(b"="),
           "urlsafe-base64": base64.urlsafe_b64encode(b).rstrip(b"="), "reversed": b[::-1],
           "repr-escaped": repr(b)[2:-1].encode(), "decimal": str(int.from_bytes(b, "big")).encode(),
           "little-endian-decimal": str(int.from_bytes(b, "little")).encode(),
           "utf-16-le": b"".join(bytes([x, 0]) for x in b), "base32": base64.b32encode(b).rstrip(b"=")}
    return {k: v for k, v in out.items() if v != b and len(v) >= 8}


def scan_spellings(raw, values, what, where, scheme, short, acc, case):
    for v in values:
        for name, sp in spellings(v).items():
            acc.count("spellings_searched")
            if sp in raw:
                acc.violation(f"{short}:{what}-in-{where}:{name}",
                              f"{scheme}: a stored {what} occurs in the serialized {where} spelled as {name}",
                              dict(case, **{what: v}))
                return True
    return False


def run_case(scheme, cid, cfg, cls, db, acc, rng, fresh_object=False):
    short = gen.SHORT[scheme]
    L = sse.loader(scheme)
    case = sse.case_desc(scheme, cid, cfg, cls, db)
    acc.count("cases")
    acc.count("cases." + short)
    # every fourth case: the host program re-seeds the global `random` generator with the same value before each
    # of the two builds (a reproducible experiment script); the ciphertexts must differ all the same
    reseed = rng.getrandbits(32) if rng.random() < 0.25 else None
    try:
        sch = L.SSEScheme(cfg)
        key = sch.KeyGen()
        if reseed is not None:
            acc.count("builds_after_reseeding_global_random", 2)
            global_random.seed(reseed)
        edb1 = sch.EDBSetup(key, copy.deepcopy(db))
        if reseed is not None:
            global_random.seed(reseed)
        how = 0.99 if fresh_object else rng.random()
        if how < 0.12:
            # the second build runs in another thread of the process (after the first has finished)
            import threading
            box = []
            t = threading.Thread(target=lambda: box.append(sch.EDBSetup(key, copy.deepcopy(db))))
            t.start()
            t.join(60)
            edb2 = box[0]
            variant = ":other-thread"
            acc.count("second_build_in_another_thread")
        elif how < 0.24:
            # ... or after a pause (the process clocks are pushed forward by 11 s to a day)
            from vlib import instrument
            with instrument.ClockOffset() as clk:
                clk.advance(rng.choice([11, 61, 3601, 86401]))
                edb2 = sch.EDBSetup(key, copy.deepcopy(db))
            variant = ":after-idle-time"
            acc.count("second_build_after_idle_time")
        elif 0.45 <= how < 0.6 and not fresh_object:
            # ... or by a COPY of the scheme object that made the first build (copy.deepcopy or a pickle round trip: what
            # handing a configured scheme to a worker does); the copy inherits whatever state the object has gathered
            import pickle as _pickle
            try:
                sch2 = copy.deepcopy(sch) if rng.random() < 0.5 else _pickle.loads(_pickle.dumps(sch))
            except Exception:
                sch2 = L.SSEScheme(copy.deepcopy(cfg))
                acc.count("scheme_object_could_not_be_copied")
            edb2 = sch2.EDBSetup(key, copy.deepcopy(db))
            edb1b = sch.EDBSetup(key, copy.deepcopy(db))
            variant = ":copied-scheme-object"
            acc.count("second_build_by_a_copy_of_the_scheme_object")
            if scheme != "CGKO06.SSE2":
                ua, ub = cipher_units(scheme, sch, edb1b), cipher_units(scheme, sch2, edb2)
                if set(ua) & set(ub):
                    acc.violation(f"{short}:ciphertexts-repeat-across-setups:original-and-copy",
                                  f"{scheme}: {len(set(ua) & set(ub))} of {len(ua)} ciphertext entries coincide between an "
                                  f"index built by a scheme object and one built by its copy from the same key and database",
                                  case)
                    return True
        elif how < 0.45 or fresh_object:
            # ... or by ANOTHER scheme object built from the same configuration, with the key reloaded from its bytes
            # (a client that was restarted, a scheme constructed per call)
            sch2 = L.SSEScheme(copy.deepcopy(cfg))
            key2 = L.SSEKey.deserialize(key.serialize(), L.SSEConfig(copy.deepcopy(cfg)))
            edb2 = sch2.EDBSetup(key2, copy.deepcopy(db))
            variant = ":fresh-scheme-object"
            acc.count("second_build_by_a_fresh_scheme_object")
        else:
            edb2 = sch.EDBSetup(key, copy.deepcopy(db))
            variant = ""
        if reseed is not None:
            global_random.seed()
        raw1 = edb1.serialize()
    except Exception as e:
        acc.count("setup_failed")
        acc.note(f"{short}: setup failed {exc_site(e)}")
        return False
    keywords = list(db)
    ids = sorted({i for v in db.values() for i in v})
    # (a) substring scan
    acc.count("bytes_scanned", len(raw1))
    for w in keywords:
        acc.count("strings_searched")
        if w in raw1:
            acc.violation(f"{short}:keyword-in-index", f"{scheme}: a stored keyword ({len(w)} bytes) occurs verbatim in "
                                                       f"EDB.serialize()", dict(case, keyword=w))
            return True
    if scheme != "CGKO06.SSE2":
        for i in ids:
            acc.count("strings_searched")
            if i in raw1:
                acc.violation(f"{short}:identifier-in-index", f"{scheme}: a stored identifier ({len(i)} bytes) occurs "
                                                              f"verbatim in EDB.serialize()", dict(case, identifier=i))
                return True
    sample_kw = keywords if len(keywords) <= 6 else rng.sample(keywords, 6)
    if scan_spellings(raw1, sample_kw, "keyword", "index", scheme, short, acc, case):
        return True
    if scheme != "CGKO06.SSE2":
        sample_ids = ids if len(ids) <= 6 else rng.sample(ids, 6)
        if scan_spellings(raw1, sample_ids, "identifier", "index", scheme, short, acc, case):
            return True
    toks = keywords if len(keywords) <= 12 else rng.sample(keywords, 12)
    for w in toks:
        try:
            tb = sch.TokenGen(key, w).serialize()
        except Exception as e:
            acc.count("tokengen_failed")
            continue
        acc.count("tokens_scanned")
        acc.count("bytes_scanned", len(tb))
        if scan_spellings(tb, [w], "keyword", "token", scheme, short, acc, case):
            return True
        if w in tb:
            acc.violation(f"{short}:keyword-in-token", f"{scheme}: the keyword occurs verbatim in its serialized token",
                          dict(case, keyword=w))
            return True
        if scheme != "CGKO06.SSE2":
            for i in db[w]:
                if i in tb:
                    acc.violation(f"{short}:identifier-in-token", f"{scheme}: an identifier occurs in a serialized token",
                                  dict(case, keyword=w))
                    return True
    # the index as it is serialized AFTER it has been searched (an index object that has been used is what a server
    # writes back or hands on): still no keyword, no identifier
    try:
        for w in toks[:6]:
            sch.Search(edb1, sch.TokenGen(key, w)).get_result_list()
        raw_after = edb1.serialize()
    except Exception as e:
        acc.note(f"{short}: search / re-serialize failed in C04: {exc_site(e)}")
        raw_after = None
    if raw_after is not None:
        acc.count("indexes_rescanned_after_searches")
        acc.count("bytes_scanned", len(raw_after))
        for w in keywords:
            if w in raw_after:
                acc.violation(f"{short}:keyword-in-index:after-searches", f"{scheme}: after a few searches on the index "
                              f"object, EDB.serialize() contains a stored keyword verbatim", dict(case, keyword=w))
                return True
        if scheme != "CGKO06.SSE2":
            for i in ids:
                if i in raw_after:
                    acc.violation(f"{short}:identifier-in-index:after-searches",
                                  f"{scheme}: after a few searches on the index object, EDB.serialize() contains a stored "
                                  f"identifier verbatim ({len(raw_after) - len(raw1):+d} bytes compared with the fresh index)",
                                  dict(case, identifier=i))
                    return True
    # (b), (c) randomized encryption
    if scheme != "CGKO06.SSE2":
        u1 = cipher_units(scheme, sch, edb1)
        u2 = cipher_units(scheme, sch, edb2)
        acc.count("entries_compared_within", len(u1))
        acc.count("entries_compared_within." + short, len(u1))
        if len(set(u1)) != len(u1):
            dup = len(u1) - len(set(u1))
            acc.violation(f"{short}:equal-ciphertext-entries", f"{scheme}: {dup} ciphertext entries of one index are equal "
                                                               f"(class {cls})", case)
            return True
        acc.count("entries_compared_across", len(u1) + len(u2))
        common = set(u1) & set(u2)
        if common:
            acc.violation(f"{short}:ciphertexts-repeat-across-setups" + (":after-reseed" if reseed is not None else "") + variant,
                          f"{scheme}: {len(common)} of {len(u1)} ciphertext entries are identical in two indexes built "
                          f"from the same key and database"
                          + (" (the global random generator was re-seeded with the same value before each build)"
                             if reseed is not None else ""), case)
            return True
    return True


def forked_units(scheme, sch, key, db):
    """Build the index in a forked child; returns the set of 16-byte digests of its ciphertext units (None: failed)."""
    r, w = os.pipe()
    pid = os.fork()
    if pid == 0:
        try:
            os.close(r)
            units = cipher_units(scheme, sch, sch.EDBSetup(key, copy.deepcopy(db)))
            out = b"".join(hashlib.blake2b(u, digest_size=16).digest() for u in units)
            os.write(w, len(out).to_bytes(4, "big") + out)
        finally:
            os._exit(0)
    os.close(w)
    data = b""
    while True:
        chunk = os.read(r, 1 << 16)
        if not chunk:
            break
        data += chunk
    os.close(r)
    os.waitpid(pid, 0)
    if len(data) < 4 or int.from_bytes(data[:4], "big") != len(data) - 4:
        return None
    return [data[i:i + 16] for i in range(4, len(data), 16)]


def run_forked(scheme, acc, ctx, rounds):
    """Two worker processes forked AFTER the parent's first build encrypt the same (key, database)."""
    short = gen.SHORT[scheme]
    L = sse.loader(scheme)
    rng = ctx.rng
    done = 0
    tries = 0
    while done < rounds and tries < rounds * 6 and not ctx.out_of_time():
        tries += 1
        cid, cfg = gen.pick_config(scheme, rng, tries)
        cfg["param_identifier_size"] = max(8, cfg.get("param_identifier_size", 8)) if "param_identifier_size" in cfg \
            else cfg.get("param_identifier_size", 8)
        try:
            db, info = gen.make_db(rng, scheme, cfg, rng.choice(["zipf", "many-singletons", "shared-id"]), 12)
            sch = L.SSEScheme(cfg)
            key = sch.KeyGen()
            parent = cipher_units(scheme, sch, sch.EDBSetup(key, copy.deepcopy(db)))
        except Exception:
            continue
        a = forked_units(scheme, sch, key, db)
        b = forked_units(scheme, sch, key, db)
        if a is None or b is None:
            acc.count("fork_failed")
            continue
        done += 1
        acc.count("forked_build_pairs")
        acc.count("cases")
        acc.count("cases." + short)
        acc.add("distinct", sse.case_fp(scheme, "fork-" + cid, db))
        p = [hashlib.blake2b(u, digest_size=16).digest() for u in parent]
        common = (set(a) & set(b)) | (set(a) & set(p)) | (set(b) & set(p))
        acc.count("entries_compared_across_forks", len(a) + len(b) + len(p))
        if common:
            acc.violation(f"{short}:ciphertexts-repeat-across-forked-workers",
                          f"{scheme}: {len(common)} of {len(a)} ciphertext entries coincide between indexes built from "
                          f"the same key and database in the parent and / or two worker processes forked after the "
                          f"parent's first build", sse.case_desc(scheme, cid, cfg, "forked", db))
            return


BIG_BLOCKS = {
    "CJJ14.PiPack": [({"param_B": 1024}, [2100, 1024, 3]), ({"param_B": 512, "param_identifier_size": 16}, [600, 512, 5])],
    "CJJ14.PiPtr": [({"param_B": 1024, "param_b": 4}, [2100, 1024, 3]), ({"param_B": 512, "param_b": 2048}, [1500, 2])],
    "CJJ14.Pi2Lev": [({"param_B": 1024, "param_b": 1024, "param_B_prime": 1024, "param_b_prime": 1024}, [2100, 1024, 3])],
}


class _ListSub(list):
    pass


CONTAINERS = {
    "tuple": tuple, "list-subclass": _ListSub, "one-shot-iterator": iter, "generator": lambda l: (x for x in l),
    "map-object": lambda l: map(bytes, l), "dict-keys-view": lambda l: dict.fromkeys(l).keys(),
}


def run_containers(scheme, acc, ctx, rounds):
    """Posting lists handed over in other containers than a list (tuple, list subclass, one-shot iterator, generator, map
    object, keys view).  A scheme may refuse such a database; if it ACCEPTS it, the index must not contain the
    identifiers or keywords and must answer with the posting lists."""
    short = gen.SHORT[scheme]
    L = sse.loader(scheme)
    rng = ctx.rng
    for r in range(rounds):
        cfg = gen.default_config(scheme)
        if scheme == "CGKO06.SSE1":
            cfg.update(param_s=64, param_dictionary_size=16)
        cfg["param_identifier_size"] = 8 if "param_identifier_size" in cfg else None
        if cfg["param_identifier_size"] is None:
            del cfg["param_identifier_size"]
        try:
            base, info = gen.db_from_lens(rng, scheme, cfg, [3, 2, 5, 1], "containers", kw_min=8, kw_max=16)
        except ValueError:
            continue
        if scheme == "CGKO06.SSE2":
            cfg["param_n"] = len({i for v in base.values() for i in v}) + 1
        for cname, make in CONTAINERS.items():
            db = {w: make(list(v)) for w, v in base.items()}
            acc.count("container_cases")
            try:
                sch = L.SSEScheme(copy.deepcopy(cfg))
                key = sch.KeyGen()
                edb = sch.EDBSetup(key, db)
                raw = edb.serialize()
            except Exception:
                acc.count("container_cases.refused")
                continue
            acc.count("container_cases.accepted")
            acc.add("containers_accepted", f"{short}:{cname}")
            case = {"scheme": scheme, "cfg": cfg, "db": base, "posting_lists_as": cname, "db_class": "containers"}
            for w in base:
                if w in raw:
                    acc.violation(f"{short}:keyword-in-index:{cname}", f"{scheme}: posting lists handed over as {cname}: a "
                                                                       f"keyword occurs verbatim in the index", case)
                    return
            if scheme != "CGKO06.SSE2":
                leaked = [i for v in base.values() for i in v if i in raw]
                if leaked:
                    acc.violation(f"{short}:identifier-in-index:{cname}",
                                  f"{scheme}: posting lists handed over as {cname} were accepted and {len(leaked)} of "
                                  f"{sum(len(v) for v in base.values())} identifiers occur verbatim in the index", case)
                    return


def run_twins(scheme, acc, ctx, rounds):
    """Two fresh interpreters that agree on the wall-clock second, process id, hash seed and environment (vlib.twin)
    build the index of the same (key, database)."""
    from vlib import twin
    short = gen.SHORT[scheme]
    L = sse.loader(scheme)
    rng = ctx.rng
    done = tries = 0
    while done < rounds and tries < rounds * 4 and not ctx.out_of_time():
        tries += 1
        cid, cfg = gen.pick_config(scheme, rng, tries + 3)
        if "param_identifier_size" in cfg:
            cfg["param_identifier_size"] = max(8, cfg["param_identifier_size"])
        try:
            db, info = gen.make_db(rng, scheme, cfg, rng.choice(["zipf", "many-singletons", "shared-id"]), 12)
            sch = L.SSEScheme(cfg)
            key = sch.KeyGen()
            kb = key.serialize()
        except Exception:
            continue
        a, b = twin.run_pair({"kind": "c04", "scheme": scheme, "cfg": cfg, "db": db, "key_bytes": kb}, ctx.scratch)
        if a is None or b is None:
            acc.count("twin_failed")
            continue
        done += 1
        acc.count("twin_build_pairs")
        acc.count("cases")
        acc.count("cases." + short)
        acc.add("distinct", sse.case_fp(scheme, "twin-" + cid, db))
        acc.count("entries_compared_across_twins", len(a) + len(b))
        common = set(a) & set(b)
        if common:
            acc.violation(f"{short}:ciphertexts-repeat-across-twin-interpreters",
                          f"{scheme}: {len(common)} of {len(a)} ciphertext entries coincide between indexes built from the "
                          f"same key and database in two fresh interpreters started in the same second with the same "
                          f"process id and hash seed", sse.case_desc(scheme, cid, cfg, "twins", db))
            return


def run_shard(spec, acc, ctx):
    scheme = spec["scheme"]
    rng = ctx.rng
    i = spec["index"]
    first = True
    if scheme != "CGKO06.SSE2" and spec["index"] == 0:
        run_forked(scheme, acc, ctx, 3 if ctx.tier == "quick" else 25)
    if scheme != "CGKO06.SSE2" and spec["index"] == 1:
        run_twins(scheme, acc, ctx, 2 if ctx.tier == "quick" else 12)
    if spec["index"] == 1:
        run_containers(scheme, acc, ctx, 2 if ctx.tier == "quick" else 30)
    if spec["index"] == 0 and scheme in BIG_BLOCKS:
        # blocks of several KiB (one AES message each), both builds by fresh scheme objects
        for over, lens in BIG_BLOCKS[scheme]:
            cfg = gen.default_config(scheme)
            cfg.update(over)
            try:
                db, info = gen.db_from_lens(rng, scheme, cfg, list(lens), "big-blocks", kw_min=8, kw_max=16)
            except ValueError as e:
                acc.note(f"big-blocks {scheme}: {e}")
                continue
            acc.count("big_block_cases")
            run_case(scheme, "big-blocks", cfg, "big-blocks", db, acc, rng, fresh_object=True)
    while not ctx.out_of_time():
        cid, cfg = gen.pick_config(scheme, rng, i)
        i += spec["of"]
        if cfg.get("param_identifier_size", 8) < 8:
            cfg["param_identifier_size"] = rng.choice([8, 16])
            cid += "+id" + str(cfg["param_identifier_size"])
        cp = gen.caps(scheme, cfg)
        if cp["kw_limit"] < 8:
            continue
        for cls in ("shared-id", "many-singletons", "zipf", "one-heavy"):
            if ctx.out_of_time():
                break
            c2 = copy.deepcopy(cfg)
            scale = rng.choice([8, 20, 40])
            if scheme in ("CGKO06.SSE1", "CGKO06.SSE2"):
                scale = min(scale, 30 if scheme.endswith("SSE1") else 16, gen.caps(scheme, c2)["max_total"])
                if scale < 2:
                    continue
            try:
                lens = [max(1, n) for n in gen.list_lengths(rng, scheme, c2, cls, cp, scale)]
                lens = [min(n, cp["max_list"]) for n in lens]
                while sum(lens) > cp["max_total"] and lens:
                    lens.pop()
                if scheme == "CJJ14.Pi2Lev" and gen.pi2lev_A_len(c2, lens) > cp["max_A_len"]:
                    lens = [min(n, c2["param_b"]) for n in lens]
                if not lens:
                    continue
                db, info = gen.db_from_lens(rng, scheme, c2, lens, cls, kw_min=8, kw_max=16)
            except ValueError:
                continue
            if run_case(scheme, cid, c2, cls, db, acc, rng):
                acc.add("distinct", sse.case_fp(scheme, cid, db))
            acc.add("classes", cls)
            if first:
                acc.sample({"scheme": scheme, "cfg_id": cid, "db_class": cls, "N": info["N"],
                            "keyword_bytes": sorted({len(k) for k in db}), "identifier_bytes": cp["id_size"]})
                first = False


def replay(case, acc, ctx):
    if case.get("posting_lists_as"):
        L = sse.loader(case["scheme"])
        sch = L.SSEScheme(copy.deepcopy(case["cfg"]))
        make = CONTAINERS[case["posting_lists_as"]]
        acc.count("replayed")
        try:
            raw = sch.EDBSetup(sch.KeyGen(), {w: make(list(v)) for w, v in case["db"].items()}).serialize()
        except Exception as e:
            acc.note(f"refused in replay: {type(e).__name__}")
            return
        if any(i in raw for v in case["db"].values() for i in v) or any(w in raw for w in case["db"]):
            acc.violation(f"{gen.SHORT[case['scheme']]}:identifier-in-index:{case['posting_lists_as']}", "replayed", case)
        return
    if case.get("db_class") == "twins":
        from vlib import twin
        sch = sse.loader(case["scheme"]).SSEScheme(case["cfg"])
        kb = sch.KeyGen().serialize()
        a, b = twin.run_pair({"kind": "c04", "scheme": case["scheme"], "cfg": case["cfg"], "db": case["db"],
                              "key_bytes": kb}, ctx.scratch)
        acc.count("replayed")
        if a and b and set(a) & set(b):
            acc.violation(f"{gen.SHORT[case['scheme']]}:ciphertexts-repeat-across-twin-interpreters", "replayed", case)
        return
    if case.get("db_class") == "forked":
        scheme, cfg, db = case["scheme"], case["cfg"], case["db"]
        sch = sse.loader(scheme).SSEScheme(cfg)
        key = sch.KeyGen()
        p = {hashlib.blake2b(u, digest_size=16).digest()
             for u in cipher_units(scheme, sch, sch.EDBSetup(key, copy.deepcopy(db)))}
        a, b = forked_units(scheme, sch, key, db), forked_units(scheme, sch, key, db)
        if a is not None and b is not None and ((set(a) & set(b)) | (set(a) & p) | (set(b) & p)):
            acc.violation(f"{gen.SHORT[scheme]}:ciphertexts-repeat-across-forked-workers", "replayed", case)
        acc.count("replayed")
        return
    run_case(case["scheme"], case.get("cfg_id", "replay"), case["cfg"], case.get("db_class", "?"), case["db"], acc,
             ctx.rng)
    acc.count("replayed")


def finish(m, tier, seed):
    c = m["counters"]
    inc = []
    per = {}
    for s in gen.SCHEMES:
        short = gen.SHORT[s]
        per[short] = {"cases": c.get("cases." + short, 0), "entries_compared": c.get("entries_compared_within." + short, 0)}
        if per[short]["cases"] < 20:
            inc.append(f"{short}: only {per[short]['cases']} cases")
    if c.get("entries_compared_within", 0) < 10 ** 4:
        inc.append(f"only {c.get('entries_compared_within', 0)} ciphertext entries compared")
    if c.get("second_build_by_a_copy_of_the_scheme_object", 0) < 200:
        inc.append("fewer than 200 second builds by a copy of the scheme object")
    if c.get("second_build_by_a_fresh_scheme_object", 0) < 200 or c.get("big_block_cases", 0) < 4:
        inc.append("too few second builds by a fresh scheme object / big-block cases")
    if c.get("indexes_rescanned_after_searches", 0) < 1000 or c.get("container_cases.accepted", 0) < 10:
        inc.append("too few indexes re-scanned after searches / too few accepted databases with other containers")
    if c.get("twin_build_pairs", 0) < 8:
        inc.append("fewer than 8 pairs of twin interpreters built an index")
    if c.get("forked_build_pairs", 0) < 8 or c.get("builds_after_reseeding_global_random", 0) < 200:
        inc.append("forked / re-seeded builds did not run")
    if "shared-id" not in m["sets"].get("classes", []):
        inc.append("shared-identifier databases never generated")
    cov = {
        "evaluations": c.get("cases", 0),
        "distinct_nontrivial": len(m["sets"].get("distinct", [])),
        "rule": "case = (scheme, configuration with identifiers of 8/16 bytes, database with 8..16-byte random keywords "
                "of class shared-id / many-singletons / zipf / one-heavy) built twice under one key; non-trivial = "
                "setup succeeded, scans and entry comparisons done; distinct = distinct (scheme, cfg id, database).",
        "exhaustive": False,
        "per_scheme": per,
        "bytes_scanned": c.get("bytes_scanned", 0),
        "strings_searched_for": c.get("strings_searched", 0),
        "tokens_scanned": c.get("tokens_scanned", 0),
        "ciphertext_entries_compared_within_one_index": c.get("entries_compared_within", 0),
        "ciphertext_entries_compared_across_two_indexes": c.get("entries_compared_across", 0),
        "builds_after_reseeding_global_random": c.get("builds_after_reseeding_global_random", 0),
        "forked_build_pairs": c.get("forked_build_pairs", 0),
        "ciphertext_entries_compared_across_forked_workers": c.get("entries_compared_across_forks", 0),
        "setup_failed": c.get("setup_failed", 0),
    }
    return {"coverage": cov, "inconclusive": inc,
            "assumptions": ["the oracle is syntactic (substrings, equal entries); semantic leaks such as unkeyed labels "
                            "are outside this property's statement",
                            "DP17's hash-table values and SSE-2 (plaintext identifiers by construction) are not "
                            "ciphertext-bearing and are exempt from the equality checks"]}
