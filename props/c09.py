"""C09 - end to end: results delivered through client and server equal the local answer.

Monitor shape: oracle at the client boundary. The documented workflow (create service, generate key, encrypt,
upload configuration, upload index, search) is driven with the REAL client service
(frontend.client.services.service.Service) talking over a loopback websocket to the REAL server handler; the
bytes handed to the search callback are deserialized and compared with the plaintext database.  Placements of
"discard the client object and re-create it from disk" over the five gaps between the six steps are enumerated
(all 32 subsets), combined with a server restart (all in-memory server objects dropped) after the upload.  The
frontend.client.commands layer is driven too (stdout captured; hex/int/raw/utf8 output formats), plus one
workflow whose result exceeds 1 MiB.
"""
import asyncio
import contextlib
import copy
import io
import itertools
import json
import os
import re

from vlib import gen, wsharness as wh
from vlib.common import exc_site, fp, retry_on_timeout

LEVEL = "exploration"
SHARD_TIMEOUT = {"quick": 280, "thorough": 1700}
STEPS = ["create", "key", "encrypt", "upload-config", "upload-index", "search"]


def plan(tier, seed):
    specs = []
    for s in gen.SCHEMES:
        specs.append({"name": f"flow-{gen.SHORT[s]}", "kind": "flows", "scheme": s,
                      "budget_s": 100 if tier == "quick" else 900, "dbs": 1 if tier == "quick" else 5})
    specs.append({"name": "commands", "kind": "commands", "budget_s": 100 if tier == "quick" else 600,
                  "schemes": gen.SCHEMES if tier == "thorough" else ["CJJ14.PiBas", "CJJ14.Pi2Lev", "DP17.Pi", "CT14.Pi"]})
    specs.append({"name": "big-result", "kind": "big", "budget_s": 200})
    specs.append({"name": "sibling-services", "kind": "siblings", "budget_s": 150 if tier == "quick" else 400})
    # configuration uploads whose websocket message is EXACTLY k * 65536 + d bytes long (d = -1, 0, 1), with a wire
    # conservation monitor: every message one side sent was received, byte for byte, by the other
    specs.append({"name": "wire-sizes", "kind": "wire", "budget_s": 150 if tier == "quick" else 600,
                  "targets": [65535, 65536, 65537, 131071, 131072, 131073, 196609, 262145, 1048575, 1048576, 1048577]
                  if tier == "quick" else
                  [k * 65536 + d for k in (1, 2, 3, 4, 5, 8, 15, 16, 17, 32, 64) for d in (-1, 0, 1, 2)]})
    # two client services alive in ONE process, each with its own connection, asking at the same moment
    specs.append({"name": "two-clients-at-once", "kind": "pair", "budget_s": 100 if tier == "quick" else 600,
                  "rounds": 3 if tier == "quick" else 40})
    if tier == "thorough":
        specs.append({"name": "real-processes", "kind": "procs", "budget_s": 600})
    return specs


def scheme_config(scheme, rng):
    cid, over = rng.choice(gen.handpicked_configs(scheme))
    cfg = gen.default_config(scheme)
    cfg.update(over)
    if scheme == "CGKO06.SSE1":
        cfg.update(param_s=64, param_dictionary_size=16)
    if rng.random() < 0.5:
        cfg["description"] = rng.choice(["Gr\u00f6\u00dfe \u2014 \u6570\u636e\u5e93", "r\u00e9sum\u00e9 \U0001f512", "\u2126hm"])
    return cid, cfg


def json_database(rng, scheme, cfg):
    """A JSON database (utf-8 keywords, hex identifiers) valid for the configuration, incl. leading-zero identifiers."""
    isz = cfg.get("param_identifier_size", 8)
    cp = gen.caps(scheme, cfg)
    # keywords are stored and searched exactly as written: several are valid Unicode that is NOT in a normal form
    # (decomposed accents, OHM / ANGSTROM signs, a compatibility ideograph, conjoining jamo, a ligature)
    kws = ["China", "Github", "中文关键字", "é-accent", "k"][:rng.randint(2, 5)] + \
        rng.sample(["re\u0301sume\u0301", "\u2126hm", "\u212bngstro\u0308m", "\uf900", "\u1112\u1161\u11ab", "\ufb01n",
                    "Straße", "I\u0307stanbul"], rng.randint(1, 3))
    rng.shuffle(kws)
    limit = cfg.get("param_l", 40) if scheme in ("CGKO06.SSE1", "CGKO06.SSE2") else 40
    kws = [k for k in kws if len(k.encode("utf8")) <= limit]
    pool = []
    space = 256 ** isz - 1
    while len(pool) < min(44, space):
        b = gen.gen_id(rng, isz, zero_rich=rng.random() < 0.5)
        if rng.random() < 0.3 and isz > 1:
            b = b"\x00" + b[1:] if any(b[1:]) else b
        if b not in pool and any(b):
            pool.append(b)
    db = {}
    budget = min(cp["max_total"], 60)
    for k in kws:
        n = min(rng.choice([rng.randint(1, 6), rng.randint(1, 6), rng.randint(17, 40)]), cp["max_list"], len(pool), budget)
        if n < 1:
            break
        budget -= n
        db[k] = [x.hex() for x in rng.sample(pool, n)]
    if scheme == "CJJ14.Pi2Lev":
        while gen.pi2lev_A_len(cfg, [len(v) for v in db.values()]) > cp["max_A_len"] and len(db) > 1:
            db.pop(next(iter(db)))
    if scheme == "CGKO06.SSE2":
        cfg["param_n"] = len({h for v in db.values() for h in v}) + rng.choice([0, 2])
    return db


class Flow:
    """One workflow run with the real client Service."""

    def __init__(self, env, server, acc, scheme, cfg, db_json):
        self.env, self.server, self.acc = env, server, acc
        self.scheme, self.cfg, self.db_json = scheme, cfg, db_json
        # the expected database is computed here, not with the repository's converter: keywords are the UTF-8 bytes
        # of the strings as written, identifiers the bytes of the hex strings
        self.db = {k.encode("utf8"): [bytes.fromhex(h) for h in v] for k, v in json.loads(json.dumps(db_json)).items()}
        self.Service = env["cservice"].Service
        self.svc = None
        self.sid = None
        self.log = []

    async def drop(self):
        if self.svc is not None and self.svc.websocket is not None:
            try:
                await asyncio.wait_for(self.svc.close_service(), 5)
            except Exception:
                pass
        self.svc = None

    async def get(self, recreate):
        if recreate or self.svc is None:
            await self.drop()
            self.svc = self.Service(self.sid) if self.sid else self.Service()
            self.log.append("new-client-object")
        return self.svc

    async def net(self, coro_fn, reply_type=None):
        """Run a network step; returns ('ok', payload) | ('closed', code) | ('timeout', None) | ('raised', exc) |
        ('lost', type): the server handed the reply to its transport but the client never passed it to the callback."""
        got = {}

        def cb(fut):
            got["content"] = fut.result()
        svc = self.svc
        sent_log = self.env["sent_log"]
        mark = self.env["sent_seq"][0]
        loop = asyncio.get_running_loop()
        task = asyncio.ensure_future(coro_fn(cb))
        t_end = loop.time() + 10
        recv_task = None
        gate = self.env["proxy"].gate
        t_quiet = loop.time() + 0.04
        while not task.done():
            await asyncio.sleep(0.005)
            if gate is not None and loop.time() > t_quiet and gate.pending():
                # nothing has happened for 40 ms while cleanup delays of earlier connections are still running: the server
                # may be waiting for one of them - it ends now
                self.acc.count("cleanup_delays_released_because_the_client_waited", gate.release_all())
                t_quiet = loop.time() + 0.04
            if recv_task is None and svc.websocket is not None:
                for t in asyncio.all_tasks():
                    co = t.get_coro()
                    if getattr(co, "__name__", "") == "_recv_message" and getattr(co, "cr_frame", None) is not None \
                            and co.cr_frame.f_locals.get("self") is svc:
                        recv_task = t
            if reply_type and "content" not in got and recv_task is not None and recv_task.done() \
                    and not recv_task.cancelled() and recv_task.exception() is not None \
                    and any(seq > mark and sid == self.sid and ty == reply_type for (seq, sid, ty) in sent_log):
                # logical, not wall-clock: the server produced the reply and the client's receive loop has ended with
                # an exception, so the reply can never reach the callback
                exc = recv_task.exception()
                task.cancel()
                with contextlib.suppress(BaseException):
                    await task
                return ("lost", f"{reply_type}: the client's receive loop died with {type(exc).__name__}: {exc}")
            if svc.websocket is not None and svc.websocket.closed and "content" not in got:
                task.cancel()
                with contextlib.suppress(BaseException):
                    await task
                return ("closed", svc.websocket.close_code)
            if asyncio.get_running_loop().time() > t_end:
                task.cancel()
                with contextlib.suppress(BaseException):
                    await task
                why = await wh.server_keeps_a_dead_connection(self.env, self.sid)
                if why:
                    return ("never-served", why)
                return ("timeout", None)
        try:
            task.result()
        except Exception as e:
            return ("raised", e)
        return ("ok", got.get("content"))

    async def step(self, name, recreate, keyword=None):
        svc = await self.get(recreate)
        self.log.append(name if keyword is None else f"search:{keyword!r}")
        if name == "create":
            self.sid = svc.handle_create_config(copy.deepcopy(self.cfg))
            return ("ok", self.sid)
        if name == "key":
            svc.handle_create_key()
            return ("ok", None)
        if name == "encrypt":
            svc.handle_encrypt_database(copy.deepcopy(self.db))
            return ("ok", None)
        if name == "upload-config":
            return await self.net(lambda cb: svc.handle_upload_config(wait=True, wait_callback_func=cb), "config")
        if name == "upload-index":
            return await self.net(lambda cb: svc.handle_upload_encrypted_database(wait=True, wait_callback_func=cb),
                                  "upload_edb")
        if name == "search":
            r = await self.net(lambda cb: svc.handle_keyword_search(keyword, wait=True, wait_callback_func=cb), "result")
            if r[0] == "ok":
                res = svc.sse_module_loader.SSEResult.deserialize(r[1], svc.config_object)
                return ("ok", res.get_result_list())
            return r


async def run_flow(env, server, acc, scheme, cid, cfg, db_json, recreate_mask, restart_at, rng, force_late=None):
    short = gen.SHORT[scheme]
    flow = Flow(env, server, acc, scheme, cfg, db_json)
    case = {"scheme": scheme, "cfg_id": cid, "cfg": cfg, "db_json": db_json, "recreate_before_step": recreate_mask,
            "server_restart": restart_at, "log": flow.log}
    acc.count("workflows")
    acc.count("workflows." + short)

    def viol(sig, msg):
        acc.violation(f"e2e:{short}:{sig}", f"{scheme}: {msg} (client re-created before steps "
                                            f"{[STEPS[i + 1] for i, b in enumerate(recreate_mask) if b]}, server restart "
                                            f"{restart_at})", case)
    late = (restart_at == "none" and rng.random() < 0.3) if force_late is None else force_late
    gate = wh.Gate() if late else None
    env["proxy"].gate = gate
    if late:
        # the server's one-second cleanup delays are held back: the delay of a closed connection is still running while the
        # next steps are made, and ends either when the server turns out to wait for it or one step later
        acc.count("workflows_with_cleanup_delays_outliving_the_next_step")
        case["cleanup_delays"] = "held back (ended when the client waits, or one by one after later steps)"
    try:
        loop = asyncio.get_running_loop()

        async def maybe_idle(rec):
            # the user keeps the client object and pauses (35 s or 2 minutes of idle time on the event loop's clock:
            # keep-alive pings fire and are answered) before the next step
            if not rec and flow.svc is not None and hasattr(loop, "warp") and rng.random() < 0.3:
                for _ in range(rng.choice([1, 1, 3])):
                    loop.warp(35.0)
                    await asyncio.sleep(0.03)
                acc.count("idle_pauses_before_a_step")
        for i, name in enumerate(STEPS[:5]):
            rec = bool(recreate_mask[i - 1]) if i > 0 else True
            await maybe_idle(rec)
            try:
                r = await flow.step(name, rec)
            except Exception as e:
                viol(f"step-raised:{name}:{exc_site(e)}", f"workflow step {name} raised {type(e).__name__}: {e}")
                return
            if r[0] == "timeout":
                acc.count("timeouts")
                acc.note(f"{scheme}: step {name} neither completed nor failed within 10 s")
                return
            if r[0] != "ok":
                viol(f"step-failed:{name}:{r[0]}", f"workflow step {name} did not complete: {r[0]} {r[1]!r:.80}")
                return
            if gate is not None and gate.pending() and i >= 1:
                # one delayed cleanup (the oldest) ends now, after a later step has been acknowledged
                if gate.release_one():
                    acc.count("cleanup_delays_ended_after_a_later_step")
                    await wh.settle(20)
            if restart_at == "after-" + name:
                await flow.drop()
                await server.restart()
                acc.count("server_restarts")
                acc.count("server_restarts_between_the_two_uploads")
                if i < 4:
                    recreate_mask = list(recreate_mask)
                    recreate_mask[i] = 1
        words = list(flow.db)[:2] + [b"nope"] + list(flow.db)[:1]
        for j, w in enumerate(words):
            rec = bool(recreate_mask[4]) if j == 0 else (rng.random() < 0.5)
            if restart_at == f"before-search-{j}":
                await flow.drop()
                await server.restart()
                acc.count("server_restarts")
                rec = True
            await maybe_idle(rec)
            try:
                r = await flow.step("search", rec, keyword=w)
            except Exception as e:
                viol(f"search-raised:{exc_site(e)}", f"search raised {type(e).__name__}: {e}")
                return
            acc.count("searches")
            if r[0] == "timeout":
                acc.count("timeouts")
                acc.note(f"{scheme}: neither result nor closure within 10 s")
                return
            if r[0] != "ok":
                viol(f"no-result-delivered:{r[0]}", f"no result was delivered for {w!r}: {r[0]} {r[1]!r:.60}")
                return
            if gate is not None and gate.pending():
                if gate.release_one():
                    acc.count("cleanup_delays_ended_after_a_later_step")
                    await wh.settle(20)
            want = flow.db.get(w, [])
            ok = (set(r[1]) == set(want) and len(r[1]) == len(set(want))) if scheme in gen.SET_RESULT else list(r[1]) == want
            acc.count("searches_compared")
            if not ok:
                viol("wrong-result", f"the result delivered to the client for {w!r} has {len(r[1])} ids "
                                     f"{[x.hex() for x in list(r[1])[:3]]}, the database holds {[x.hex() for x in want[:3]]} "
                                     f"({len(want)})")
                return
        acc.add("distinct", fp(scheme, cid, recreate_mask, restart_at, db_json, late))
        acc.add("placements", fp(recreate_mask, restart_at))
        acc.add("recreate_masks", "".join(str(int(b)) for b in recreate_mask))
    finally:
        await flow.drop()
        if gate is not None:
            env["proxy"].gate = None
            gate.release_all()
            await wh.settle(30)


async def flows(spec, acc, ctx):
    env = wh.setup_env()
    server = await wh.Server().start()
    scheme = spec["scheme"]
    rng = ctx.rng
    masks = list(itertools.product([0, 1], repeat=5))
    restarts = ["none", "after-upload-config", "before-search-0", "before-search-2"]
    n = 0
    for d in range(spec["dbs"]):
        cid, cfg = scheme_config(scheme, rng)
        db_json = json_database(rng, scheme, cfg)
        for mi, mask in enumerate(masks):
            rs = restarts
            for restart_at in rs:
                if ctx.out_of_time():
                    acc.note(f"{scheme}: enumeration cut by the time budget")
                    acc.count("enumeration_incomplete")
                    await server.stop()
                    return
                await retry_on_timeout(acc, lambda: run_flow(env, server, acc, scheme, cid, copy.deepcopy(cfg), db_json,
                                                             list(mask), restart_at, rng))
                n += 1
                if n == 1:
                    acc.sample({"scheme": scheme, "cfg_id": cid, "db_json": db_json, "recreate_mask": list(mask),
                                "server_restart": restart_at})
    acc.add("schemes_enumerated", scheme)
    await server.stop()


SIBLING_VARIANTS = {
    "DP17.Pi": [{"hash_h": "sha256"}, {"hash_h": "md5"}, {"param_L": 2}],
    "CJJ14.PiBas": [{"param_lambda": 16, "prf_f_output_length": 16}],
    "CJJ14.PiPack": [{"param_B": 8}, {"param_identifier_size": 16}],
    "CJJ14.PiPtr": [{"param_b": 8}, {"param_B": 8}],
    "CJJ14.Pi2Lev": [{"param_B": 8, "param_B_prime": 8, "param_b": 8, "param_b_prime": 8}],
    "CGKO06.SSE1": [{"param_l": 16}, {"param_k": 16}],
    "CGKO06.SSE2": [{"param_l": 16}, {"param_k": 16}],
    "CT14.Pi": [{"param_l": 16}, {"param_k_prime": 16}],
    "ANSS16.Scheme3": [{"param_l": 16, "param_l_prime": 16}, {"param_lambda": 16}],
}


async def siblings(spec, acc, ctx):
    """Two services of ONE scheme on one server whose configurations differ in a single entry (for DP17 only in the
    name of a primitive), holding the same database: every step of A is followed by the same step of B, searches
    alternate with a fresh client object (a new connection) each time. Each service must get ITS answers."""
    env = wh.setup_env()
    server = await wh.Server().start()
    rng = ctx.rng
    try:
        for scheme in gen.SCHEMES:
            for over in SIBLING_VARIANTS[scheme]:
                if ctx.out_of_time():
                    return
                cfg_a = gen.default_config(scheme)
                if scheme == "CGKO06.SSE1":
                    cfg_a.update(param_s=64, param_dictionary_size=16)
                cfg_b = dict(cfg_a, **over)
                if cfg_b.get("param_identifier_size") != cfg_a.get("param_identifier_size"):
                    db_json = json_database(rng, scheme, cfg_a)
                    db_json_b = json_database(rng, scheme, cfg_b)
                else:
                    db_json = db_json_b = json_database(rng, scheme, cfg_a)
                    if scheme == "CGKO06.SSE2":
                        cfg_b["param_n"] = cfg_a["param_n"]
                fa = Flow(env, server, acc, scheme, cfg_a, db_json)
                fb = Flow(env, server, acc, scheme, cfg_b, db_json_b)
                if rng.random() < 0.5:
                    fa, fb = fb, fa
                case = {"scheme": scheme, "sibling_difference": over, "siblings": True}
                acc.count("workflows", 2)
                acc.count("sibling_pairs")
                try:
                    bad = False
                    for name in STEPS[:5]:
                        for f in (fa, fb):
                            r = await f.step(name, True)
                            if r[0] == "timeout":
                                acc.count("timeouts")
                                bad = True
                                break
                            if r[0] != "ok":
                                acc.violation(f"e2e:{gen.SHORT[scheme]}:siblings:step-failed:{name}:{r[0]}",
                                              f"{scheme}: with a sibling service that differs in {over} on the same "
                                              f"server, step {name} did not complete: {r[0]} {r[1]!r:.80}", case)
                                bad = True
                                break
                        if bad:
                            break
                    if bad:
                        continue
                    for rnd in range(2):
                        for f in (fa, fb, fb, fa):
                            w = rng.choice(list(f.db))
                            r = await f.step("search", True, keyword=w)
                            acc.count("searches")
                            if r[0] == "timeout":
                                acc.count("timeouts")
                                bad = True
                                break
                            if r[0] != "ok":
                                acc.violation(f"e2e:{gen.SHORT[scheme]}:siblings:no-result-delivered:{r[0]}",
                                              f"{scheme}: sibling services differing in {over}: {r[0]} {r[1]!r:.60}", case)
                                bad = True
                                break
                            want = f.db[w]
                            acc.count("searches_compared")
                            acc.count("sibling_searches_compared")
                            ok = (set(r[1]) == set(want) and len(r[1]) == len(set(want))) if scheme in gen.SET_RESULT \
                                else list(r[1]) == want
                            if not ok:
                                acc.violation(f"e2e:{gen.SHORT[scheme]}:siblings:wrong-result",
                                              f"{scheme}: two services on one server whose configurations differ in {over}: "
                                              f"the result delivered for {w!r} has {len(r[1])} ids, the database holds "
                                              f"{len(want)}", case)
                                bad = True
                                break
                        if bad:
                            break
                    if not bad:
                        acc.add("distinct", fp("siblings", scheme, sorted(over)))
                        acc.add("sibling_schemes", scheme)
                except Exception as e:
                    acc.violation(f"e2e:siblings:raised:{exc_site(e)}", f"{scheme}: {type(e).__name__}: {e}", case)
                finally:
                    await fa.drop()
                    await fb.drop()
    finally:
        await server.stop()


async def commands_layer(spec, acc, ctx):
    """Drive frontend.client.commands (what run_client.py calls) with stdout captured."""
    env = wh.setup_env()
    server = await wh.Server().start()
    import frontend.client.commands as cmds
    from toolkit.bytes_utils import BytesConverter
    rng = ctx.rng
    for k, scheme in enumerate(spec["schemes"]):
        if ctx.out_of_time():
            break
        short = gen.SHORT[scheme]
        cid, cfg = scheme_config(scheme, rng)
        fmt = ["hex", "int", "raw", "utf8"][k % 4]
        if fmt == "utf8":
            isz = cfg.get("param_identifier_size", 8)
            n1 = max(1, min(3, gen.caps(scheme, cfg)["max_list"]))
            ids1 = set()
            while len(ids1) < n1:
                ids1.add("".join(rng.choice("abcdefgh") for _ in range(isz)).encode().hex())
            db_json = {"kw1": sorted(ids1),
                       "kw2": ["".join(rng.choice("ijklmnop") for _ in range(isz)).encode().hex()]}
            if scheme == "CGKO06.SSE2":
                cfg["param_n"] = 4
        else:
            db_json = json_database(rng, scheme, cfg)
        d = ctx.tmpdir("cmd")
        cfg_path, db_path = os.path.join(d, "cfg.json"), os.path.join(d, "db.json")
        json.dump(cfg, open(cfg_path, "w"))
        json.dump(db_json, open(db_path, "w"))
        sname = f"svc{k}-{rng.getrandbits(32)}"
        case = {"scheme": scheme, "cfg": cfg, "db_json": db_json, "format": fmt}
        acc.count("command_workflows")
        out = io.StringIO()

        def viol(sig, msg):
            acc.violation(f"e2e-commands:{short}:{sig}", f"{scheme} via frontend.client.commands: {msg}",
                          dict(case, stdout=out.getvalue()[-600:]))
        try:
            with contextlib.redirect_stdout(out):
                cmds.create_service(cfg_path, sname)
                cmds.generate_key(sname=sname)
                cmds.encrypt_database(db_path, sname=sname)
                await asyncio.wait_for(cmds.upload_config(sname=sname), 15)
                await asyncio.wait_for(cmds.upload_encrypted_database(sname=sname), 15)
            text = out.getvalue()
            if "error" in text.lower():
                viol("step-error", f"a workflow step printed an error: {text[-200:]!r}")
                continue
            for kw in list(db_json)[:3] + ["nope"]:
                o2 = io.StringIO()
                with contextlib.redirect_stdout(o2):
                    await asyncio.wait_for(cmds.search(kw, fmt, sname=sname), 15)
                line = o2.getvalue()
                out.write(line)
                acc.count("command_searches")
                ids = [bytes.fromhex(h) for h in db_json.get(kw, [])]
                want = [BytesConverter.convert_bytes(b, fmt) for b in ids]
                import ast
                mm = re.search(r">>> The result is (\[.*\])\.\s*$", line.strip(), re.S)
                try:
                    printed = ast.literal_eval(mm.group(1)) if mm else None
                except Exception:
                    printed = None
                if printed is None:
                    okk = False
                elif scheme in gen.SET_RESULT:
                    okk = len(printed) == len(want) and sorted(map(repr, printed)) == sorted(map(repr, want))
                else:
                    okk = printed == want
                if not okk:
                    viol(f"wrong-output:{fmt}", f"search {kw!r} printed {line.strip()!r:.200}, expected the list {want!r:.160}")
                    break
            else:
                acc.add("distinct", fp("cmd", scheme, fmt))
                acc.add("formats", fmt)
        except asyncio.TimeoutError:
            acc.count("timeouts")
            acc.note(f"commands layer timeout for {scheme}")
        except Exception as e:
            viol(f"raised:{exc_site(e)}", f"{type(e).__name__}: {e}")
    await server.stop()


async def two_clients(spec, acc, ctx):
    """Service objects A and B (different services, different databases) in one process: every network step is
    made by both at once (asyncio.gather); each must be told ITS acknowledgement and ITS posting lists."""
    env = wh.setup_env()
    server = await wh.Server().start()
    rng = ctx.rng
    for rnd in range(spec["rounds"]):
        if ctx.out_of_time():
            break
        sa, sb = rng.sample(gen.SCHEMES, 2) if rnd % 2 else (rng.choice(gen.SCHEMES),) * 2
        flows_ = []
        for sch in (sa, sb):
            cid, cfg = scheme_config(sch, rng)
            flows_.append(Flow(env, server, acc, sch, cfg, json_database(rng, sch, cfg)))
        A, B = flows_
        case = {"schemes": [sa, sb], "db_json": [A.db_json, B.db_json], "two_clients": True}
        acc.count("workflows")
        acc.count("two_client_rounds")
        try:
            bad = None
            for name in STEPS[:3]:
                for f in (A, B):
                    r = await f.step(name, False)
                    if r[0] != "ok":
                        bad = (name, r)
            for name in STEPS[3:5]:
                ra, rb = await asyncio.gather(A.step(name, False), B.step(name, False))
                for r in (ra, rb):
                    if r[0] != "ok":
                        bad = (name, r)
            if bad:
                if bad[1][0] == "timeout":
                    acc.count("timeouts")
                else:
                    acc.violation(f"e2e:two-clients:{bad[0]}-failed:{bad[1][0]}",
                                  f"two services used at once in one process: step {bad[0]}: {bad[1][0]} {bad[1][1]!r:.80}", case)
                continue
            wa = list(A.db) + [b"absent-a"]
            wb = list(B.db) + [b"absent-b"]
            rng.shuffle(wa)
            rng.shuffle(wb)
            for ka, kb in zip(wa, wb):
                ra, rb = await asyncio.gather(A.step("search", False, keyword=ka), B.step("search", False, keyword=kb))
                acc.count("searches", 2)
                acc.count("concurrent_search_pairs")
                for f, kw, r, who in ((A, ka, ra, "A"), (B, kb, rb, "B")):
                    if r[0] == "timeout":
                        acc.count("timeouts")
                        bad = True
                        break
                    want = f.db.get(kw, [])
                    ok = r[0] == "ok" and ((set(r[1]) == set(want) and len(r[1]) == len(want))
                                           if f.scheme in gen.SET_RESULT else list(r[1]) == want)
                    acc.count("searches_compared")
                    if not ok:
                        acc.violation("e2e:two-clients:wrong-or-missing-result",
                                      f"services A ({sa}) and B ({sb}) searched at the same moment: service {who} was "
                                      f"delivered {r[0]} {('%d ids' % len(r[1])) if r[0] == 'ok' else r[1]!r:.60}, its "
                                      f"database holds {len(want)} ids for that keyword", case)
                        bad = True
                        break
                if bad:
                    break
            if not bad:
                acc.add("distinct", fp("pair", sa, sb, rnd))
        except Exception as e:
            acc.violation(f"e2e:two-clients:raised:{exc_site(e)}", f"{type(e).__name__}: {e}", case)
        finally:
            await A.drop()
            await B.drop()
    await server.stop()


async def big_result(spec, acc, ctx):
    """One keyword whose result serializes to more than 1 MiB, next to small ones."""
    env = wh.setup_env()
    server = await wh.Server().start()
    rng = ctx.rng
    for scheme, n in (("CJJ14.PiPack", 40000), ("DP17.Pi", 300)):
        await big_one(env, server, acc, scheme, n)
    await server.stop()


async def big_one(env, server, acc, scheme, n):
    cfg = gen.default_config(scheme)
    cfg["param_identifier_size"] = 32
    ids = [(i + 1).to_bytes(32, "big").hex() for i in range(n)]
    db_json = {"the": ids, "rare": ids[:2]}
    flow = Flow(env, server, acc, scheme, cfg, db_json)
    case = {"scheme": scheme, "big_keyword_postings": n, "identifier_size": 32}
    acc.count("workflows")
    acc.count("big_result_workflows")
    try:
        for i, name in enumerate(STEPS[:5]):
            r = await flow.step(name, True)
            if r[0] != "ok":
                acc.violation(f"e2e:big:{name}-failed:{r[0]}", f"big-result workflow: step {name}: {r[0]} {r[1]!r:.80}", case)
                return
        for w in (b"rare", b"the", b"rare"):
            r = await flow.step("search", True, keyword=w)
            acc.count("searches")
            if r[0] == "timeout":
                acc.count("timeouts")
                return
            if r[0] != "ok":
                acc.violation(f"e2e:big:no-result-delivered:{r[0]}",
                              f"no result delivered for keyword {w!r} with {len(flow.db[w])} postings "
                              f"({len(flow.db[w]) * 32} bytes of identifiers): {r[0]} {r[1]!r:.60}", case)
                return
            acc.count("searches_compared")
            if (set(r[1]) != set(flow.db[w])) if scheme in gen.SET_RESULT else (list(r[1]) != flow.db[w]):
                acc.violation("e2e:big:wrong-result", f"result for {w!r} differs", case)
                return
        acc.add("distinct", fp("big", scheme, n))
    except Exception as e:
        acc.violation(f"e2e:big:raised:{exc_site(e)}", f"{type(e).__name__}: {e}", case)
    finally:
        await flow.drop()


async def wire_sizes(spec, acc, ctx):
    """The configuration dictionary may carry keys the scheme ignores; a "note" of the right length makes the
    upload-config message exactly as long as wanted (measured at the client's send(), re-tuned until exact).  The
    workflow is then completed and searched; afterwards every message sent must have been received unchanged."""
    env = wh.setup_env()
    server = await wh.Server().start()
    mon = wh.WireMonitor()
    rng = ctx.rng
    try:
        for T in spec["targets"]:
            if ctx.out_of_time():
                break
            scheme = rng.choice(["CJJ14.PiBas", "CJJ14.PiPack", "CT14.Pi", "DP17.Pi", "CJJ14.Pi2Lev"])
            base = gen.default_config(scheme)
            db_json = json_database(rng, scheme, base)
            note_len = max(300, T - 2000)
            exact = None
            for attempt in range(6):
                cfg = dict(base, note="n" * note_len)
                flow = Flow(env, server, acc, scheme, cfg, db_json)
                case = {"scheme": scheme, "wire_size_target": T, "note_length": note_len}
                mark = mon.mark()
                try:
                    ok = True
                    for name in STEPS[:3]:
                        await flow.step(name, False)
                    before = mon.mark()
                    r = await flow.step("upload-config", False)
                    sizes = mon.sent_by_client_since(before)
                    biggest = max(sizes) if sizes else 0
                    if biggest != T and r[0] == "ok":
                        note_len += T - biggest
                        await flow.drop()
                        if note_len < 1:
                            break
                        continue
                    acc.count("workflows")
                    acc.count("wire.config_messages_of_exact_target_size")
                    acc.add("wire.sizes_hit", T)
                    exact = True
                    if r[0] == "timeout":
                        acc.count("timeouts")
                        break
                    if r[0] != "ok":
                        acc.violation(f"e2e:wire-size:upload-config-failed:{r[0]}",
                                      f"a configuration upload whose websocket message is exactly {T} bytes long was not "
                                      f"acknowledged: {r[0]} {r[1]!r:.80}", case)
                        break
                    r = await flow.step("upload-index", False)
                    if r[0] != "ok":
                        acc.violation(f"e2e:wire-size:upload-index-failed:{r[0]}", f"after a {T}-byte configuration "
                                      f"message: upload-index {r[0]} {r[1]!r:.80}", case)
                        break
                    for w in list(flow.db)[:2] + [b"absent-kw"]:
                        r = await flow.step("search", False, keyword=w)
                        acc.count("searches")
                        if r[0] != "ok":
                            acc.violation(f"e2e:wire-size:no-result-delivered:{r[0]}", f"{r[0]} {r[1]!r:.60}", case)
                            ok = False
                            break
                        want = flow.db.get(w, [])
                        acc.count("searches_compared")
                        if (set(r[1]) != set(want)) if scheme in gen.SET_RESULT else (list(r[1]) != want):
                            acc.violation("e2e:wire-size:wrong-result", f"result for {w!r} differs after a {T}-byte "
                                                                        f"configuration message", case)
                            ok = False
                            break
                    if ok:
                        # the stored configuration on the server is the uploaded one
                        try:
                            stored = json.load(open(os.path.join(server.server_dir(flow.sid), "config.json")))
                            if stored.get("note") != cfg["note"]:
                                acc.violation("e2e:wire-size:stored-config-differs", f"the server stored a configuration "
                                              f"whose note has {len(stored.get('note', ''))} characters, sent {note_len}", case)
                        except Exception as e:
                            acc.note(f"wire-sizes: could not read the stored configuration: {exc_site(e)}")
                        await asyncio.sleep(0.05)
                        lost = mon.missing(mark)
                        acc.count("wire.messages_checked_for_conservation", mon.mark()[0] - mark[0])
                        if lost:
                            acc.violation("e2e:wire:message-not-received-as-sent",
                                          f"{len(lost)} message(s) were sent and not received byte for byte by the peer: "
                                          f"{lost[:3]}", case)
                        acc.add("distinct", fp("wire", scheme, T))
                    break
                except Exception as e:
                    acc.violation(f"e2e:wire-size:raised:{exc_site(e)}", f"{type(e).__name__}: {e}", case)
                    break
                finally:
                    await flow.drop()
            if not exact:
                acc.count("wire.target_not_reached")
                acc.note(f"wire-sizes: could not tune a configuration message to exactly {T} bytes")
    finally:
        mon.uninstall()
        await server.stop()


def real_processes(spec, acc, ctx):
    """Thorough only: server as a real subprocess (SIGKILLed and restarted after the upload), every client step a
    separate process running the real run_client-level commands."""
    import signal
    import socket
    import subprocess
    import sys
    import time
    repo = os.environ.get("VERIF_REPO", "/repo")
    home = ctx.tmpdir("home")
    s = socket.socket()
    s.bind(("127.0.0.1", 0))
    port = s.getsockname()[1]
    s.close()
    env = dict(os.environ, HOME=home, PYTHONPATH=repo)
    launcher = ("import sys, asyncio; sys.path.insert(0, %r); import global_config; "
                "global_config.ClientConfig.SERVER_URI = 'ws://127.0.0.1:%d'; import frontend.client.commands as c; " % (repo, port))

    def start_server():
        p = subprocess.Popen([sys.executable, "-c", "import sys, asyncio; sys.path.insert(0, %r); "
                                                   "import frontend.server.connector as c; "
                                                   "asyncio.run(c.run_server('127.0.0.1', %d))" % (repo, port)],
                             env=env, stdout=subprocess.DEVNULL, stderr=subprocess.DEVNULL)
        for _ in range(100):
            try:
                socket.create_connection(("127.0.0.1", port), 0.2).close()
                return p
            except OSError:
                time.sleep(0.1)
        return p

    def client(code, timeout=60):
        # (the code goes through a UTF-8 source file: keywords and descriptions that are not ASCII cannot be passed on a
        # command line when this shard's interpreter runs with an ASCII file-system encoding)
        script = os.path.join(home, "client_step.py")
        with open(script, "w", encoding="utf8") as f:
            f.write("# -*- coding: utf-8 -*-\n" + launcher + code)
        r = subprocess.run([sys.executable, script], env=env, capture_output=True, timeout=timeout)
        return r.stdout.decode("utf8", "replace") + r.stderr.decode("utf8", "replace")

    srv = start_server()
    try:
        for scheme in ("CJJ14.PiBas", "CT14.Pi", "DP17.Pi"):
            if ctx.out_of_time():
                break
            cid, cfg = scheme_config(scheme, ctx.rng)
            db_json = json_database(ctx.rng, scheme, cfg)
            d = ctx.tmpdir("proc")
            json.dump(cfg, open(os.path.join(d, "cfg.json"), "w"))
            json.dump(db_json, open(os.path.join(d, "db.json"), "w"))
            sname = "p" + gen.SHORT[scheme]
            case = {"scheme": scheme, "cfg": cfg, "db_json": db_json}
            acc.count("process_workflows")
            out = client(f"c.create_service({os.path.join(d, 'cfg.json')!r}, {sname!r})")
            out += client(f"c.generate_key(sname={sname!r})")
            out += client(f"c.encrypt_database({os.path.join(d, 'db.json')!r}, sname={sname!r})")
            out += client(f"asyncio.run(c.upload_config(sname={sname!r}))")
            out += client(f"asyncio.run(c.upload_encrypted_database(sname={sname!r}))")
            time.sleep(1.3)  # let the real 1 s cleanup finish, then kill -9 and restart the server
            srv.send_signal(signal.SIGKILL)
            srv.wait()
            srv = start_server()
            acc.count("server_restarts")
            if "error" in out.lower():
                acc.violation(f"e2e-procs:{gen.SHORT[scheme]}:step-error", f"a step printed an error: {out[-300:]!r}", case)
                continue
            for kw in list(db_json)[:2] + ["nope"]:
                line = client(f"asyncio.run(c.search({kw!r}, 'hex', sname={sname!r}))")
                acc.count("searches")
                want = [h.lower() for h in db_json.get(kw, [])]
                m = re.search(r">>> The result is (.*)\.", line)
                acc.count("searches_compared")
                got = m.group(1) if m else None
                okk = got is not None and (sorted(re.findall(r"'([0-9a-f]*)'", got)) == sorted(want))
                if scheme not in gen.SET_RESULT:
                    okk = okk and re.findall(r"'([0-9a-f]*)'", got) == want
                if not okk:
                    acc.violation(f"e2e-procs:{gen.SHORT[scheme]}:wrong-output",
                                  f"search {kw!r} after a SIGKILL restart printed {line.strip()[-200:]!r}, expected {want}",
                                  case)
                    break
            else:
                acc.add("distinct", fp("procs", scheme))
    finally:
        srv.kill()


def run_shard(spec, acc, ctx):
    k = spec["kind"]
    if k == "flows":
        wh.run_warped(lambda: flows(spec, acc, ctx))
    elif k == "commands":
        asyncio.run(commands_layer(spec, acc, ctx))
    elif k == "big":
        asyncio.run(big_result(spec, acc, ctx))
    elif k == "pair":
        asyncio.run(two_clients(spec, acc, ctx))
    elif k == "wire":
        asyncio.run(wire_sizes(spec, acc, ctx))
    elif k == "siblings":
        asyncio.run(siblings(spec, acc, ctx))
    elif k == "procs":
        real_processes(spec, acc, ctx)
    acc.count("cases", acc.counters.get("workflows", 0) + acc.counters.get("command_workflows", 0) +
              acc.counters.get("process_workflows", 0))


def replay(case, acc, ctx):
    async def go():
        env = wh.setup_env()
        server = await wh.Server().start()
        if "recreate_before_step" in case:
            await run_flow(env, server, acc, case["scheme"], case.get("cfg_id", "replay"), case["cfg"], case["db_json"],
                           case["recreate_before_step"], case["server_restart"], ctx.rng,
                           force_late=bool(case.get("cleanup_delays")))
        await server.stop()
    asyncio.run(go())
    acc.count("replayed")


def finish(m, tier, seed):
    c = m["counters"]
    inc = []
    per = {gen.SHORT[s]: c.get("workflows." + gen.SHORT[s], 0) for s in gen.SCHEMES}
    for k, v in per.items():
        if v < 5:
            inc.append(f"{k}: only {v} workflows")
    masks = m["sets"].get("recreate_masks", [])
    exhaustive = len(set(masks)) == 32 and not c.get("enumeration_incomplete") and \
        len(m["sets"].get("schemes_enumerated", [])) == len(gen.SCHEMES)
    if not exhaustive:
        inc.append(f"client re-creation placements covered: {len(set(masks))}/32")
    if c.get("timeouts", 0):
        inc.append(f"{c.get('timeouts')} waits ended without result or closure")
    if c.get("server_restarts", 0) < 9:
        inc.append("fewer than 9 server restarts exercised")
    if c.get("workflows_with_cleanup_delays_outliving_the_next_step", 0) < 30:
        inc.append("fewer than 30 workflows with cleanup delays that outlive the next step")
    if len(m["sets"].get("sibling_schemes", [])) < 9:
        inc.append("sibling services (two configurations of one scheme on one server) did not cover the nine schemes")
    if c.get("server_restarts_between_the_two_uploads", 0) < 9:
        inc.append("fewer than 9 server restarts between the configuration upload and the index upload")
    if c.get("wire.config_messages_of_exact_target_size", 0) < 6:
        inc.append("fewer than 6 configuration messages of an exact k*65536+d size were delivered")
    if c.get("command_searches", 0) < 8 or c.get("big_result_workflows", 0) < 1:
        inc.append("commands layer / big-result workflow not exercised")
    cov = {
        "sibling_service_pairs": c.get("sibling_pairs", 0),
        "sibling_searches_compared": c.get("sibling_searches_compared", 0),
        "server_restarts_between_the_two_uploads": c.get("server_restarts_between_the_two_uploads", 0),
        "wire": {"config_messages_of_exact_size": c.get("wire.config_messages_of_exact_target_size", 0),
                 "sizes": sorted(m["sets"].get("wire.sizes_hit", [])),
                 "messages_checked_for_conservation": c.get("wire.messages_checked_for_conservation", 0)},
        "evaluations": c.get("cases", 0),
        "distinct_nontrivial": len(m["sets"].get("distinct", [])),
        "rule": "case = one complete workflow of the real client against the real server (nine schemes): all 32 subsets "
                "of 'client object re-created from disk before step k' over the five gaps, a server restart before the "
                "first or third search (quick: rotated; thorough: every combination), four searches (present, present, "
                "absent, repeated); plus the commands layer with stdout captured in four output formats and one workflow "
                "with a > 1 MiB result. Non-trivial = the workflow completed and all delivered results were compared; "
                "distinct = distinct (scheme, configuration, placement, database).",
        "exhaustive": bool(exhaustive),
        "workflows_per_scheme": per,
        "client_recreation_masks_covered": len(set(masks)),
        "placements_covered": len(m["sets"].get("placements", [])),
        "searches_compared": c.get("searches_compared", 0),
        "server_restarts": c.get("server_restarts", 0),
        "command_layer_searches": c.get("command_searches", 0),
        "output_formats": sorted(m["sets"].get("formats", [])),
        "process_level_workflows": c.get("process_workflows", 0),
    }
    return {"coverage": cov, "inconclusive": inc,
            "assumptions": ["quick tier: client and server share one process and event loop but only talk through the "
                            "loopback websocket and the files under the scratch HOME; a server restart drops every "
                            "server-side object (new ServicesManager, new listening socket); thorough adds real "
                            "processes with SIGKILL", "the client's 60 s wait is wrapped by a 10 s harness watchdog: "
                                                      "closure seen = violation, neither closure nor result = inconclusive"]}
